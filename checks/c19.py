#!/usr/bin/env python3
"""C19 - names given to the solver are complete, faithful and unique (Names.tla)."""
import json, os, random, sys, time
sys.path.insert(0, os.path.join(os.path.dirname(os.path.abspath(__file__)), "..", "tools"))
from vlib import *
import targets, drv, cvtcases, nlgen
import importlib
sys.path.insert(0, os.path.dirname(os.path.abspath(__file__)))
c04 = importlib.import_module("c04")

PID = "C19"
INF = 500000000


def nameset(kind, nv, nalg, nlog, nobj):
    if kind == "plain":
        return (["x%d" % i for i in range(nv)], ["c%d" % i for i in range(nalg)], ["L%d" % i for i in range(nlog)], ["cost%d" % i for i in range(nobj)])
    if kind == "long":             # distinct names of 260..280 characters
        def long_(p, i):
            return "%s%d['%s','%s']" % (p, i, "warehouse_" * 13, ("customer_%d_" % i) * 11)
        return ([long_("Ship", i) for i in range(nv)], [long_("Balance", i) for i in range(nalg)],
                [long_("Either", i) for i in range(nlog)], [long_("TotalCost", i) for i in range(nobj)])
    if kind == "derivedlike":      # names that look like the converter's counted copies of a neighbour's name
        return (["v"] + ["v_%d_" % (i + 1) for i in range(1, nv)], ["c"] + ["c_%d_" % (i + 1) for i in range(1, nalg)],
                ["c_%d_" % (nalg + i + 1) for i in range(nlog)], ["c_%d_" % (nalg + nlog + i + 2) for i in range(nobj)])
    if kind == "genericlike":      # names equal to the generic names of OTHER items
        return (["_svar[%d]" % (((i + 1) % nv) + 1) for i in range(nv)], ["_scon[%d]" % (((i + 1) % max(nalg, 1)) + 1) for i in range(nalg)],
                ["_slogcon[%d]" % (i + 2) for i in range(nlog)], ["_sobj[%d]" % (i + 2) for i in range(nobj)])
    return (["x", "x_slk_", "x_equ_"][:nv] + ["w%d" % i for i in range(3, nv)], ["r"] + ["r_slk_", "r_equ_", "r_2_", "r_3_"][:max(0, nalg - 1)],
            ["r_slk__2_", "r_slk__3_", "r_equ__2_"][:nlog], ["r_obj"][:nobj])


def codes(s):
    return [ord(ch) for ch in s]


def run(tier):
    t0 = time.time()
    sd = os.path.join(SPECS, "valcvt")
    g = tlc("GenNames", "GenNames.cfg", cwd=sd, workers=NPROC)
    tlc_must_pass(g, "GenNames")
    gen = printed_json(g, "CASE")
    if len(gen) != 7 * 9 * 3 * 4 * 7 * 5:
        raise Broken("GenNames produced %d cases" % len(gen))
    gen.sort(key=lambda c: json.dumps(c, sort_keys=True))
    rnd = random.Random(seed())
    picks = list(range(len(gen))) if tier == "thorough" else sorted(rnd.sample(range(len(gen)), 700))
    if tier != "thorough":       # the .row file cut inside the logical block, with several logical constraints: a fixed share
        special = [i for i, c_ in enumerate(gen) if c_["extra"] == "logic3" and c_["files"] in ("rowcutlog", "short")]
        picks = sorted(set(picks) | set(rnd.sample(special, min(60, len(special)))))
    exe = targets.get("h_drv_asan" if tier == "thorough" else "h_drv")   # thorough: ASan/UBSan build
    cfgs, acc = cvtcases.configs(exe)
    linear_opts = dict(cfgs)["mip-linear"]
    cases = []
    for j, i in enumerate(picks):
        a = gen[i]
        m, _ = c04.build(dict(a, tr="sol"), rnd)      # already in NL file order
        nv, nalg, nlog, nobj = len(m["vars"]), len(m["cons"]), len(m.get("lcons", [])), len(m["objs"])
        vn, cn, ln, on = nameset(a["nameset"], nv, nalg, nlog, nobj)
        files = {}
        if a["files"] != "absent":
            eol = "\r\n" if a["files"] == "crlf" else "\n"
            col, rowf = vn, cn + ln + on
            if a["files"] == "short":
                col, rowf = col[:max(1, nv - 2)], rowf[:max(1, nalg - 1)]
            if a["files"] == "rowcutlog":     # the .row file ends inside the block of the logical constraints
                rowf = rowf[:nalg + max(0, min(1, nlog - 1))] if nlog else rowf[:max(1, nalg - 1)]
            if a["files"] == "colonly":
                rowf = []
            if a["files"] == "rowonly":
                col = []
            files = {}
            if a["files"] != "rowonly":
                files[".col"] = "".join(n + eol for n in col)
            if a["files"] != "colonly":
                files[".row"] = "".join(n + eol for n in rowf)
        else:
            col, rowf = [], []
        opts = {"native": [], "slack": [acc["LinConRange"]["opt"] + "=0"], "linear": list(linear_opts)}[a["rmode"]]
        opts += ["cvt:names=%d" % a["mode"]]
        cases.append({"id": j, "model": m, "opts": opts, "answer": "status 0 ok\n", "files": files, "a": a,
                      "col": col if a["files"] != "absent" else [], "rowf": rowf if a["files"] != "absent" else [],
                      "dims": (nv, nalg, nlog, nobj)})
    runs = drv.run_cases(exe, PID, cases)
    recs = []
    refused = 0
    for c, r in zip(cases, runs):
        if not r["hang"] and r["sol"] and (r["sol"]["code"] or 0) >= 500 and r["sol"]["msg"].strip() and \
                not any(e["e"] == "FinishProblemModificationPhase" for e in r["rec"]):
            refused += 1          # a diagnosed refusal (e.g. general SOS2 under a linear-only solver): no names to judge
            continue
        if r["hang"] or r["rc"] != 0 or not any(e["e"] == "FinishProblemModificationPhase" for e in r["rec"]):
            recs.append({"e": "Crash", "id": c["id"], "rc": r["rc"], "msg": ((r["sol"] or {}).get("msg") or r["stderr"])[:200]})
            continue
        m = c["model"]
        nv, nalg, nlog, nobj = c["dims"]
        ocons = [{"lin": [[v, cf] for v, cf in cc["lin"]], "lb": -INF if cc["lb"] is None else cc["lb"], "ub": INF if cc["ub"] is None else cc["ub"],
                  "linear": cc.get("expr") is None} for cc in m["cons"]]
        rows, rownames, vars_, vnames, cnames, onames = [], [], [], [], [], []
        for ev in r["rec"]:
            if ev["e"] == "Vars":
                vars_ = [{"lb": c04.ival(lb), "ub": c04.ival(ub)} for lb, ub in zip(ev["lb"], ev["ub"])]
                vnames = [codes(n or "") for n in (ev["names"] or [])]
            elif ev["e"] == "Con":
                cnames.append(codes(ev["name"] or ""))
                if ev["grp"] == 3:
                    d = ev["d"]
                    rows.append({"lin": [[v, c04.ival(cf)] for cf, v in d["lin"]], "lb": c04.ival(d["lb"]), "ub": c04.ival(d["ub"])})
                    rownames.append(codes(ev["name"] or ""))
            elif ev["e"] == "Obj":
                onames.append(codes(ev["name"] or ""))
        recs.append({"e": "Case", "id": c["id"], "mode": c["a"]["mode"], "col": [codes(n) for n in c["col"]], "rowf": [codes(n) for n in c["rowf"]],
                     "nv": nv, "nalg": nalg, "nlog": nlog, "nobj": nobj, "objused": 1, "ocons": ocons, "rows": rows, "vars": vars_,
                     "vnames": vnames, "cnames": cnames, "rownames": rownames, "onames": onames})
    res = validate_parallel("TraceNames", "TraceNames.cfg", recs, sd, "c19")
    verdicts = [v for r in res for v in printed_json(r, "VERDICT")]
    if len(verdicts) != len(recs):
        raise Broken("verdict count mismatch")
    v = Verdict(PID)
    nactive = sum(1 for vd in verdicts if vd.get("active"))
    nbad = 0
    byid = {x.get("id"): x for x in recs}
    for vd in verdicts:
        if not vd["wrong"]:
            continue
        nbad += 1
        c = cases[vd["id"]] if vd["id"] >= 0 else None
        a = c["a"] if c else {}
        rec = byid.get(vd["id"], {})
        dec = lambda seqs: ["".join(chr(x) for x in s) for s in seqs]
        for w in vd["wrong"]:
            key = "%s:%s:%s:%s:mode%s:%s:%s" % (w[0], "-".join(a.get("rows", [])), a.get("extra"), a.get("rmode"), a.get("mode"), a.get("files"), a.get("nameset"))
            v.violation(key, "rows %s extra=%s ranges=%s cvt:names=%s files=%s nameset=%s: %s at item %s; variable names %s; constraint names %s; objective names %s%s" %
                        (a.get("rows"), a.get("extra"), a.get("rmode"), a.get("mode"), a.get("files"), a.get("nameset"), w[0], w[1],
                         dec(rec.get("vnames", [])), dec(rec.get("cnames", [])), dec(rec.get("onames", [])), (" " + json.dumps(rec)[:200]) if rec.get("e") == "Crash" else ""),
                        {"case": a, "opts": c["opts"] if c else None, "files": c["files"] if c else None})
    rcode, nnew = v.finish()
    if rcode == 0 and nactive < len(recs) // 3:
        raise Broken("names were active in only %d of %d runs" % (nactive, len(recs)))
    write_evidence(PID, tier, {
        "states": g.distinct + sum(r.distinct for r in res), "transitions": g.generated + sum(r.generated for r in res),
        "traces_validated_against_impl": len(recs), "samples": [cases[0]["a"], cases[-1]["a"]],
        "evaluations": len(recs), "refused_conversions": refused, "runs_with_names_active": nactive, "rejected_runs": nbad, "generated_cases_total": len(gen),
        "exhaustive": tier == "thorough",
        "explanation": "TLC enumerates models (row kinds, extra nonlinear/logical constraints => multi-level conversions, slack/linear-only range handling) x cvt:names 0..3 x .col/.row present/absent/short/CRLF/only one of them x adversarial original name sets (names that look like derived, generic or slack names); the names received by the ModelAPI in the real driver are validated by TLC: non-empty, originals faithful, derived names prefixed by an original name, pairwise distinct per class",
        "violations_new": nnew,
    }, time.time() - t0, violations=nnew,
        assumptions=["'derived from the item it comes from' is checked as: some original item's name is a prefix of the derived name"])
    return rcode

if __name__ == "__main__":
    sys.path.insert(0, os.path.dirname(os.path.abspath(__file__)))
    main_wrapper(PID, run)
