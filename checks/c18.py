#!/usr/bin/env python3
"""C18 - expression equality is a structural equivalence consistent with hashing (ExprTree.tla)."""
import concurrent.futures as cf
import json, os, sys, time
sys.path.insert(0, os.path.join(os.path.dirname(os.path.abspath(__file__)), "..", "tools"))
from vlib import *
import targets

PID = "C18"
CORE = os.path.join(SPECS, "core")
CHUNK = 6000          # trace lines per TLC validation run


def prefix(t):
    """tree record -> blank separated prefix form read by the harness (format munging only)"""
    r = [t["k"], str(len(t["s"]))] + list(t["s"]) + [str(len(t["c"]))]
    for c in t["c"]:
        r += prefix(c)
    return r


def features(t, acc=None):
    """what is special about a tree; part of the violation key"""
    acc = set() if acc is None else acc
    if "nan" in t["s"]:
        acc.add("nan")
    if t["k"] in ("notalldiff", "numberofsym", "ifsym"):
        acc.add(t["k"])
    if t["k"] == "call" and any(c["k"] == "ifsym" for c in t["c"]):
        acc.add("ifsymarg")
    for c in t["c"]:
        features(c, acc)
    return acc


def show(t):
    s = t["k"]
    if t["s"]:
        s += "<" + ",".join(t["s"]) + ">"
    if t["c"]:
        s += "(" + ", ".join(show(c) for c in t["c"]) + ")"
    return s


# Keys.  Clauses about one tree (reflexive, same, sharing, readback, hash_refused,
# hash_same) are keyed by that tree alone, clauses about the pair by both kinds.
# Per rejected line the most basic violated clause of the Equal group and of the
# hash group is reported for each tree / the pair (all clauses are in the payload).
ON_A = ["reflexive_a", "same", "sharing", "readback"]
ON_B = ["reflexive_b"]
ON_PAIR = ["symmetric", "ab", "ba", "a2b", "transitive"]
HASH_A = ["hash_refused_a", "hash_same"]
HASH_B = ["hash_refused_b"]
HASH_PAIR = ["hash_equal"]
ALL_CLAUSES = ON_A + ON_B + ON_PAIR + HASH_A + HASH_B + HASH_PAIR


def keys_of(wrong, case):
    """[(key, clauses)] for one rejected Pair line"""
    a, b = case["a"], case["b"]
    out = []
    def one(order, trees):
        hit = [c for c in order if c in wrong]
        if hit:
            f = sorted(set().union(*[features(t) for t in trees]))
            kinds = "~".join(t["k"] for t in trees)
            name = hit[0][:-2] if hit[0].endswith(("_a", "_b")) else hit[0]
            out.append(("%s:%s[%s]" % (name, kinds, "+".join(f)), hit))
    one(ON_A, [a]); one(HASH_A, [a])
    if a != b:
        one(ON_B, [b]); one(HASH_B, [b])
    # pair clauses only if no single-tree clause already explains the line
    if not out:
        one(ON_PAIR, [a, b]); one(HASH_PAIR, [a, b])
    return out


def crash_key(case):
    f = sorted(features(case["a"]) | features(case["b"]))
    ka, kb = case["a"]["k"], case["b"]["k"]
    return "crash:%s[%s]" % (ka if ka == kb else ka + "~" + kb, "+".join(f))


def run(tier):
    t0 = time.time()
    thorough = tier == "thorough"
    # (A) design check: the comparison machine answers structural identity on the bounded universe
    mc = tlc("MCExprTree", "MCExprTreeThorough.cfg" if thorough else "MCExprTree.cfg", cwd=CORE, workers=NPROC,
             coverage=True)
    tlc_must_pass(mc, "MCExprTree")
    idle = [a for a, (taken, _) in mc.coverage.items() if a.startswith("Do") and taken == 0]
    if idle or not any(a.startswith("Do") for a in mc.coverage):
        raise Broken("MCExprTree: visitor actions never taken (vacuous design check): %s" % idle)
    # (B) TLC generates the cases
    gen = tlc("GenExprTree", "GenExprTreeThorough.cfg" if thorough else "GenExprTree.cfg", cwd=CORE,
              workers=NPROC, xmx="12g")
    tlc_must_pass(gen, "GenExprTree")
    raw = printed_json(gen, "CASE")
    if len(raw) < 1000:
        raise Broken("GenExprTree produced only %d cases" % len(raw))
    cases = sorted(raw, key=lambda c: json.dumps(c, sort_keys=True))       # stable ids
    d = outdir(PID)
    tsv = os.path.join(d, "cases-%s.tsv" % tier)
    with open(tsv, "w") as f:
        for i, c in enumerate(cases):
            f.write("%d\t%s\t%s\t%s\t%s\n" % (i, c["fam"], c["rel"], " ".join(prefix(c["a"])), " ".join(prefix(c["b"]))))
    # (C) the real code
    exe = targets.get("h_exprtree")
    trace = os.path.join(d, "trace-%s.ndjson" % tier)
    rc, so, se = run_harness(exe, [tsv, trace], timeout=1500,
                             env={"UBSAN_OPTIONS": "print_stacktrace=0:halt_on_error=1:exitcode=98",
                                  "ASAN_OPTIONS": "abort_on_error=0:detect_leaks=0:exitcode=99:symbolize=0"})
    if rc == 3:
        raise Broken("h_exprtree rejected its input: " + se[-500:])
    lines = sanitize_trace(trace, rc, "" if rc == 0 else se)
    # binding self-check: what the harness read back from the real objects is the generated case
    seen = set()
    for e in lines:
        if e["e"] == "Pair":
            c = cases[e["id"]]
            seen.add(e["id"])
            if e["a"] != c["a"] or e["b"] != c["b"] or e["rel"] != c["rel"]:
                raise Broken("case %d: the trees read back from mp::Expr are not the generated ones\n%s\n%s" %
                             (e["id"], json.dumps(c)[:600], json.dumps(e)[:600]))
        elif e["e"] == "Crash" and str(e.get("ctx", "")).isdigit():
            seen.add(int(e["ctx"]))
    if len(seen) != len(cases):
        raise Broken("harness accounted for %d of %d cases\n%s" % (len(seen), len(cases), se[-1500:]))
    # validate in chunks, several TLC runs side by side
    chunks = []
    for n, i in enumerate(range(0, len(lines), CHUNK)):
        p = os.path.join(d, "trace-%s-%03d.ndjson" % (tier, n))
        with open(p, "w") as f:
            for e in lines[i:i + CHUNK]:
                f.write(json.dumps(e) + "\n")
        chunks.append((p, i, lines[i:i + CHUNK]))
    def validate(ch):
        ok, res = validate_trace("TraceExprTree", "TraceExprTree.cfg", ch[0], cwd=CORE, xmx="3g")
        done = printed_json(res, "DONE")
        if len(done) != 1 or done[0]["n"] != len(ch[2]):
            raise Broken("TraceExprTree did not consume %s\n%s" % (ch[0], res.out[-2000:]))
        return res
    with cf.ThreadPoolExecutor(max_workers=max(1, min(8, NPROC // 2))) as ex:
        results = list(ex.map(validate, chunks))
    v = Verdict(PID)
    found = {}        # key -> [count, first description, payload]
    nbad = 0
    for (p, off, chunk), res in zip(chunks, results):
        for b in printed_json(res, "BAD"):
            nbad += 1
            e = chunk[b["line"] - 1]
            if e["e"] == "Pair":
                case = cases[e["id"]]
                if "wf" in b["wrong"]:
                    raise Broken("ill-formed tree in case %d: %s" % (e["id"], json.dumps(case)[:500]))
                for k, hit in keys_of(b["wrong"], case):
                    desc = "clause(s) %s violated for a = %s, b = %s (%s): Equal answers %s, hashes %s" % (
                        "/".join(hit), show(case["a"])[:150], show(case["b"])[:150], case["rel"], json.dumps(e["eq"]), json.dumps(e["h"]))
                    found.setdefault(k, [0, desc, {"case": case, "violated": b["wrong"],
                                                   "observed": {"eq": e["eq"], "h": e["h"]}}])[0] += 1
                if not set(b["wrong"]) <= set(ALL_CLAUSES):
                    raise Broken("unknown clause in %s" % b)
            elif e["e"] == "Crash" and str(e.get("ctx", "")).isdigit():
                case = cases[int(e["ctx"])]
                k = crash_key(case)
                desc = "memory error / crash (%s) while comparing or hashing a = %s, b = %s" % (
                    e.get("what"), show(case["a"])[:150], show(case["b"])[:150])
                found.setdefault(k, [0, desc, {"case": case, "crash": e}])[0] += 1
            else:
                found.setdefault("crash:harness", [0, "harness failed: " + json.dumps(e)[:600], e])[0] += 1
    for k in sorted(found):
        n, desc, payload = found[k]
        v.violation(k, "%s [%d case(s)]" % (desc, n), payload)
    rcode, nnew = v.finish()
    if found:
        log("violation keys (%d): %s" % (len(found), " ".join(sorted(found))))
    fams = {}
    for c in cases:
        fams[c["fam"] + "/" + c["rel"]] = fams.get(c["fam"] + "/" + c["rel"], 0) + 1
    kinds = sorted({c["a"]["k"] for c in cases} | {c["b"]["k"] for c in cases})
    pair_lines = [e for e in lines if e["e"] == "Pair"]
    write_evidence(PID, tier, {
        "states": mc.distinct + gen.distinct + sum(r.distinct for r in results),
        "transitions": mc.generated + gen.generated + sum(r.generated for r in results),
        "traces_validated_against_impl": len(cases),
        "samples": [cases[0], cases[len(cases) // 2], json.dumps(pair_lines[len(pair_lines) // 3])[:900]],
        "cases_by_family": fams, "kinds_covered": len(kinds),
        "observations_per_case": "8 Equal answers (both directions, two independent builds, a build with shared sub-expressions, reflexive) and 4 hashes",
        "exhaustive": True,
        "explanation": "TLC enumerates every tree of the first layer (all %d kinds, all leaves over 2 atoms per sort, argument lists <= %d, PL terms <= %d breakpoints) "
                       "with every single-point mutant, a representative of every kind in every slot of every kind with the mutants of the inner tree, "
                       "all pairs of scalars incl. NaN/inf/denormal/-0.0/1+ulp and prefix/empty/long strings, and cross-kind pairs; each is built through the real ExprFactory, "
                       "read back, and the answers validated by TLC against ExprTree.tla" % (len(kinds), 3 if thorough else 2, 2 if thorough else 1),
        "design_check": {"module": "MCExprTree", "distinct_states": mc.distinct, "depth": mc.depth,
                         "action_coverage": {a: t for a, (t, g) in sorted(mc.coverage.items()) if a.startswith("Do")}},
        "rejected_lines": nbad, "violation_keys": len(found), "violations_new": nnew,
    }, time.time() - t0, violations=nnew,
        assumptions=["function references are compared as objects of one factory (two functions with different names)",
                     "UnsupportedError is an accepted outcome only for trees containing a symbolic numberof / symbolic if (documented as unsupported by the visitor) or for a bare string",
                     "an If/Implication with a null else-branch (accepted by the factory, never produced by the NL reader) is outside the generated domain"])
    return rcode


if __name__ == "__main__":
    main_wrapper(PID, run)
