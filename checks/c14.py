#!/usr/bin/env python3
"""C14 - the SOL reader is total and memory-safe on arbitrary files and follows the SOLHandler protocol (SolFormat.tla, protocol part)."""
import json, os, shutil, sys, time
sys.path.insert(0, os.path.join(os.path.dirname(os.path.abspath(__file__)), "..", "tools"))
from vlib import *
import targets

PID = "C14"
NL = os.path.join(SPECS, "nl")
# abstract solutions of the C05 generator used as valid base files (text and binary)
BASES_QUICK = ["vec:nv0:np0:nc0:nd0", "vec:nv3:np3:nc3:nd3", "vec:nv2:np0:nc2:nd1", "msg:s1:crlf0:nbs0:trail0",
               "msg:s3:crlf0:nbs0:trail0", "opt:n0:vbtol0:np2:nd1", "opt:n9:vbtol0:np2:nd1", "opt:n5:vbtol1:np2:nd1",
               "suf:k0:real0:io0:tab4:pat5", "suf:k1:real1:io1:tab2:pat4", "sufs:m5", "sufs:m2"]
BASES_THOROUGH = BASES_QUICK + ["msg:s12:crlf0:nbs0:trail0", "suf:k3:real1:io0:tab1:pat3", "suf:k2:real0:io0:tab3:pat5", "sufs:m1", "sufs:m3",
                                "vec:nv1:np1:nc3:nd0", "opt:n7:vbtol1:np0:nd0", "obj:o7:c1999999999"]


def key_of(b, ev):
    # stable: what went wrong + format + mutation class (not the concrete value / offset / base file)
    if b["why"] == "error-without-message":
        return "%s:code%s" % (b["why"], ev.get("code"))
    return "%s@%s:%s" % (b["why"], b["fmt"], b["cls"])


def binding_selftest(lines, trace, nbad):
    """Corrupt accepted reads: an offered count beyond the declared size, a callback
    after an incomplete vector's Result dropped; both must be rejected."""
    out = [dict(e) for e in lines]
    cur, done = None, 0
    for i, e in enumerate(out):
        if e["e"] == "Case":
            cur = e
        elif e["e"] == "OnPrimalSolution" and cur and e["status"] == 0 and e["read"] == e["offered"] and done == 0:
            e["offered"] = cur["nv"] + 1; e["read"] = cur["nv"] + 1; done = 1
        elif e["e"] == "Result" and done == 1 and e["code"] == 0 and i > len(out) // 2:
            e["code"] = 9; done = 2
    p = trace + ".selftest"
    with open(p, "w") as f:
        for e in out:
            f.write(json.dumps(e) + "\n")
    ok, res = validate_trace("TraceSolProtocol", "TraceSolProtocol.cfg", p, cwd=NL, timeout=3000, xmx="12g")
    n2 = len(printed_json(res, "BAD"))
    os.remove(p)
    if done != 2 or n2 < nbad + 2:
        raise Broken("binding self-test: corrupted trace not rejected (%d -> %d)" % (nbad, n2))
    return {"corrupted_lines": 2, "additional_rejections": n2 - nbad}


def run(tier):
    t0 = time.time()
    mc = tlc("MCSolFormat", "MCSolFormat.cfg", cwd=NL, workers=NPROC, timeout=600)
    tlc_must_pass(mc, "MCSolFormat")
    gen = tlc("GenSol", "GenSol.cfg", cwd=NL, workers=1, env={"SEED": seed(), "NMIX": 1}, timeout=600)
    tlc_must_pass(gen, "GenSol")
    allc = {c["tag"]: c for c in printed_json(gen, "CASE")}
    want = BASES_QUICK if tier == "quick" else BASES_THOROUGH
    missing = [t for t in want if t not in allc]
    if missing:
        raise Broken("GenSol did not produce base cases %s" % missing)
    cases = [allc[t] for t in want]
    exe = targets.get("h_solread")
    wd = os.path.join(BUILD, "run", PID)
    shutil.rmtree(wd, ignore_errors=True)
    os.makedirs(wd)
    cf_ = os.path.join(wd, "cases.ndjson")
    with open(cf_, "w") as f:
        for c in cases:
            f.write(json.dumps(c) + "\n")
    trace = os.path.join(outdir(PID), "trace-%s.ndjson" % tier)
    rc, so, se = run_harness(exe, [cf_, trace, str(seed()), wd, tier], timeout=3000)
    lines = sanitize_trace(trace, rc, se)
    ok, res = validate_trace("TraceSolProtocol", "TraceSolProtocol.cfg", trace, cwd=NL, timeout=3000, xmx="12g")
    done = printed_json(res, "DONE")
    if len(done) != 1 or done[0]["n"] != len(lines):
        raise Broken("TraceSolProtocol did not consume the trace\n" + res.out[-2500:])
    reads = [e for e in lines if e["e"] == "Case"]
    results = [e for e in lines if e["e"] == "Result"]
    # machinery sanity (not a judgement on mp): the harness's own serialisers produce readable files
    okvalid = {}
    cur = None
    for e in lines:
        if e["e"] == "Case":
            cur = e
        elif e["e"] == "Result" and cur and cur["valid"] and cur["decl"] == "equal" and cur["mode"] == "all":
            okvalid.setdefault((cur["base"], cur["fmt"]), []).append(e["code"])
    notread = [k for k, v in okvalid.items() if any(c != 0 for c in v)]
    if len(okvalid) != 2 * len(cases) or notread:
        raise Broken("valid base files not read successfully: %s (of %d)" % (notread[:6], len(okvalid)))
    # vacuity: every handler kind, size class, format and the main result codes occurred
    modes = {e["mode"] for e in reads}
    decls = {e["decl"] for e in reads}
    rcodes = {e["code"] for e in results}
    if modes != {"all", "some", "none", "seterr", "refuse", "easy", "capi"} or decls != {"zero", "smaller", "equal", "larger"} \
            or not {0, 2, 3, 4, 5, 7} <= rcodes or {e["fmt"] for e in reads} != {"text", "binary"}:
        raise Broken("vacuous run: modes %s decls %s codes %s" % (modes, decls, rcodes))
    bad = printed_json(res, "BAD")
    selftest = None
    if tier == "thorough":
        selftest = binding_selftest(lines, trace, len(bad))
    v = Verdict(PID)
    seen = {}
    for b in bad:
        ev = lines[b["line"] - 1]
        key = key_of(b, ev)
        seen[key] = seen.get(key, 0) + 1
        if seen[key] > 1:
            continue
        case = next((e for e in reversed(lines[:b["line"]]) if e["e"] == "Case"), None)
        desc = "%s reading a %s file (mutation %s, declared sizes %s, handler reads %s): %s" % (
            b["why"], b["fmt"], b["mut"], b["decl"], b["mode"], json.dumps(ev)[:300])
        v.violation(key, desc, {"read": case, "event": ev, "file": os.path.join(wd, "crash-%d.sol" % b["id"]) if b["why"].startswith("crash") else None})
    with open(os.path.join(outdir(PID), "keys-%s.json" % tier), "w") as f:
        json.dump(seen, f, indent=0, sort_keys=True)
    rcode, nnew = v.finish()
    bycls = {}
    for e in reads:
        c = e["cls"].split(":")[0]
        bycls[c] = bycls.get(c, 0) + 1
    codes = {}
    for e in results:
        codes[str(e["code"])] = codes.get(str(e["code"]), 0) + 1
    write_evidence(PID, tier, {
        "states": mc.distinct + gen.distinct + res.distinct,
        "transitions": mc.generated + gen.generated + res.generated,
        "traces_validated_against_impl": len(reads),
        "samples": [reads[0], reads[len(reads) // 2], [json.dumps(e)[:200] for e in lines[1:8]]],
        "reads_by_mutation_class": bycls, "result_codes": codes, "base_files": len(cases) * 2,
        "exhaustive": False,
        "explanation": "valid text and binary .sol files built from C05 generator solutions, read with every declared size class x every handler; then every count/length/suffix-header field set to each of {0,1,n-1,n,n+1,511,512,513,2^31-1,-1}, over-long and unterminated names/tables, missing sections, truncation at/around every structural boundary, binary record markers set to {0,L-1,L+1,L+8,2^31-1,-1}, seeded byte flips; each read in a forked ASan+UBSan child; TLC validates every callback against the protocol automaton for the declared size",
        "design_check": {"module": "MCSolFormat", "distinct_states": mc.distinct},
        "rejected_reads": len(bad), "violations_new": nnew, "binding_selftest": selftest,
    }, time.time() - t0, violations=nnew,
        assumptions=["files are structure mutations of valid files, not all byte strings; byte flips are seeded samples",
                     "ASan+UBSan (production defines, NDEBUG) detect the memory errors and undefined behaviour; uninitialised reads are not detected",
                     "'delivered with the lengths stated in the file' is read as an upper bound (name <= namelen-1, table <= tablen-1 characters)"])
    return rcode


if __name__ == "__main__":
    main_wrapper(PID, run)
