#!/usr/bin/env python3
"""C11 - solver option parsing is total, faithful and ordered (Options.tla)."""
import binascii, concurrent.futures as cf
import json, shutil, os, random, re, sys, time
sys.path.insert(0, os.path.join(os.path.dirname(os.path.abspath(__file__)), "..", "tools"))
from vlib import *
import targets

PID = "C11"
OPTDIR = os.path.join(BUILD, "run", "C11-optfiles")
CORE = os.path.join(SPECS, "core")
CHUNK = 5000
MINE = ("alg:iter", "alg:mode", "tol:gap", "tech:log", "tech:quiet", "lim:*:wt")
NOGRID = -2000000000        # a real value that is not a multiple of 1/1000 (never predicted)


# ---------------------------------------------------------------- text <-> characters
def chars(b):
    """bytes -> list of characters as Options.tla writes them (format munging only)"""
    return [chr(c) if 33 <= c <= 126 and c not in (34, 92) else "<%02x>" % c for c in b]


def hx(b):
    return binascii.hexlify(b).decode()


def unhx(h):
    return binascii.unhexlify(h)


def scaled(x):
    x = float(x)
    if x != x or x in (float("inf"), float("-inf")):
        return NOGRID
    r = round(x * 1000)
    return int(r) if abs(x * 1000 - r) < 1e-6 and abs(r) < 2 ** 31 - 1 else NOGRID


# ---------------------------------------------------------------- rendering abstract cases
K_NAMES = [b"alg:iter", b"iterlim", b"maxit", b"alg:mode", b"mode", b"tol:gap", b"gap", b"mipgap",
           b"lim:3:wt", b"limit_ab_w", b"lim:x:wt", b"wt7", b"wtab"]
S_NAMES = [b"tech:log", b"logfile", b"log_file"]
F_NAMES = [b"tech:quiet", b"quiet", b"silent"]
U_NAMES = [b"foo", b"iterlimx", b"alg:", b"xgap", b"lim:wt", b"q", b"tech:logg", b"lim:*:wt", b"*",
           b"{}", b"lim{1}", b"x}", b"{", b"a{{b}}", b"%s%n", b"{0:>9999}"]     # names that look like format strings
BLANKS = [b" ", b" ", b" ", b"  ", b"\t", b" \t ", b"\n", b"\r", b"\x0b", b"\x0c"]
NUMS = [b"5", b"-3", b"+12", b"007", b"010", b"0.1", b"2.5", b"-0.125", b".5", b"3.", b"0", b"1e3", b"12345678", b"0x1A", b"-", b"1.2345"]
WORDS = [b"abc", b"x1", b"path/to.f", b"a=b", b"Z", b"inf", b"nan"]
JUNK = [b"\xe9\xff", b"\x01\x02", b"%$#", b"y" * 300, b"\x80", b"\xc3\xa9t\xc3\xa9", b"\\", b"\x7f"]


def vary_case(name, rnd):
    if b"*" in name or name.startswith(b"lim") or name.startswith(b"wt"):
        return name                       # wildcard keys are matched case-sensitively
    r = rnd.random()
    if r < 0.55:
        return name
    if r < 0.75:
        return name.upper()
    return bytes(c ^ 0x20 if chr(c).isalpha() and rnd.random() < 0.5 else c for c in name)


def render_cls(seq, rnd):
    q = rnd.choice([b"'", b'"'])
    out = b""
    for cl in seq:
        if cl == "K": out += vary_case(rnd.choice(K_NAMES), rnd)
        elif cl == "S": out += vary_case(rnd.choice(S_NAMES), rnd)
        elif cl == "F": out += vary_case(rnd.choice(F_NAMES), rnd)
        elif cl == "U": out += rnd.choice(U_NAMES)
        elif cl == "_": out += rnd.choice(BLANKS)
        elif cl == "=": out += b"="
        elif cl == "?": out += b"?"
        elif cl == "q": out += q
        elif cl == "n": out += rnd.choice(NUMS)
        elif cl == "w": out += rnd.choice(WORDS)
        elif cl == "x": out += rnd.choice(JUNK)
        else: raise Broken("class " + cl)
    return out


OPT_NAMES = {"int": [b"alg:iter", b"iterlim", b"maxit"], "int2": [b"alg:mode", b"mode"],
             "dbl": [b"tol:gap", b"gap", b"mipgap"], "str": S_NAMES, "flag": F_NAMES,
             "wild": [b"lim:3:wt", b"limit_3_w", b"wt3"]}
VALUES = {("int", 1): [b"5", b"+5", b"005"], ("int", 2): [b"-12", b"010"], ("int2", 1): [b"5", b"+5"], ("int2", 2): [b"-12", b"0"],
          ("dbl", 1): [b"2.5", b"2.50", b"+2.5"], ("dbl", 2): [b"-0.125", b"-.125", b"0.1"],
          ("str", 1): [b"abc", b"'abc'", b'"abc"'], ("str", 2): [b"'a b'", b'"x=y z"', b"p/q.log", b"''",
                          # a quoted value containing the other kind of quote
                          b'"it\'s here.log"', b"'say \"hi\" twice'", b'"\'"', b"'a\"=b'"],
          ("wild", 1): [b"1.5"], ("wild", 2): [b"0.25", b".25"]}


def render_item(it, rnd):
    k, o, v = it["k"], it["o"], it["v"]
    if k == "unknown":
        return rnd.choice([b"foo=1", b"bar 2", b"nosuch", b"Iterlimit=3"])
    if k == "flagarg":
        return vary_case(rnd.choice(F_NAMES), rnd) + rnd.choice([b"=1", b" = yes", b"= 0"])
    name = vary_case(rnd.choice(OPT_NAMES[o]), rnd)
    if k == "query":
        return name + rnd.choice([b"=?", b" ?", b" = ?"])
    if o == "flag":
        return name
    return name + rnd.choice([b"=", b" ", b" = ", b"= ", b" ="]) + rnd.choice(VALUES[(o, v)])


def concretize(case, cid, rnd):
    """abstract case -> the inputs of one ParseOptions call"""
    env = {"mp": None, "exe": None, "nam": None, "argv": []}
    parts = {}
    if case["fam"] == "cls":
        text = render_cls(case["s"], rnd)
        where = rnd.choice(["mp", "mp", "mp", "mp", "nam", "nam", "exe", "argv", "argv", "argv"])
        exe_known = where == "exe" or rnd.random() < 0.2
        if where == "argv":
            env["argv"] = [text]
        else:
            env[where] = text
    else:
        exe_known = case["exeKnown"]
        for st in case["h"]:
            parts.setdefault(st["src"], []).append(render_item(st["it"], rnd))
        for src, items in parts.items():
            text = rnd.choice([b" ", b"  ", b"\t"]).join(items)
            if rnd.random() < 0.2:
                text = b" " + text + b" "
            if src in ("a1", "a2"):
                continue
            env[src] = text
        for src in ("a1", "a2"):
            if src in parts:
                env["argv"].append(b" ".join(parts[src]))
    # option files: with a seeded probability one source of a history names an option file instead of carrying the
    # text itself.  `env` stays what the spec is told (the text as if included; for an argument: the file's content,
    # flagged in argvFile); `real` is what the driver gets; `files` are written before the run.
    real = {"mp": env["mp"], "exe": env["exe"], "nam": env["nam"], "argv": list(env["argv"])}
    files = {}
    env["argvFile"] = [False] * len(env["argv"])
    if case["fam"] != "cls" and rnd.random() < 0.3:
        srcs = [s_ for s_ in parts if parts[s_]]
        src = rnd.choice(srcs)
        path = os.path.join(OPTDIR, "c%d.opt" % cid).encode()
        if src in ("a1", "a2"):
            k = [s_ for s_ in ("a1", "a2") if s_ in parts].index(src)
            content = b"\n".join(parts[src]) + b"\n"
            files[path] = content
            env["argv"][k] = content
            env["argvFile"][k] = True
            real["argv"][k] = rnd.choice([b"tech:optionfile=", b"optionfile=", b"option:file="]) + path
        elif env.get(src) is not None:
            items = parts[src]
            k = rnd.randrange(len(items))
            n = rnd.choice([1, 1, 2])
            files[path] = b"\n".join(items[k:k + n]) + b"\n"
            sep = b" "
            env[src] = sep.join(items)
            real[src] = sep.join(items[:k] + [b"tech:optionfile=" + path] + items[k + n:])
    return {"id": cid, "echo": rnd.random() < 0.8, "thr": rnd.random() < 0.25, "exeKnown": exe_known, "env": env,
            "real": real, "files": files}


# ---------------------------------------------------------------- harness output -> trace lines
def convert(raw, inputs, table_out):
    """one harness record -> one trace line"""
    if raw["e"] == "Table":
        opts = []
        for o in raw["opts"]:
            name = unhx(o["name"])
            opts.append({"name": chars(name), "syn": [chars(unhx(s)) for s in o["syn"]], "type": o["type"],
                         "wild": o["wild"], "builtin": name.decode() not in MINE})
            table_out.append((name, o["type"], o["wild"]))
        return {"e": "Table", "opts": opts, "decls": [chars(unhx(x)) for x in raw.get("decls", [])]}
    if raw["e"] != "Run":
        return raw
    inp = inputs[raw["id"]]
    index = {name: i + 1 for i, (name, _, _) in enumerate(table_out)}

    def store(d):
        s = []
        for name, ty, wild in table_out:
            n = name.decode()
            if n not in MINE:
                s.append(0)
            elif wild:
                s.append([{"k": chars(unhx(e["k"])), "v": scaled(e["v"])} for e in d[n]])
            elif ty == "int":
                s.append(int(d[n]))
            elif ty == "dbl":
                s.append(scaled(d[n]))
            elif ty == "str":
                s.append(chars(unhx(d[n])))
            else:
                s.append(bool(d[n]))
        return s

    def iv(n): return {"t": "i", "i": n, "s": []}
    def sv(b): return {"t": "s", "i": 0, "s": chars(b)}

    def echo(text):
        m = re.match(rb"^  (\S+)(?: = (.*))?\n$", text, re.S)
        if m:
            name, val = m.group(1), m.group(2)
            if name in index and not table_out[index[name] - 1][2]:
                ty = table_out[index[name] - 1][1]
                try:
                    v = iv(0) if ty == "flag" else iv(int(val)) if ty == "int" else iv(scaled(float(val))) if ty == "dbl" else sv(val)
                    if (ty == "flag") == (val is None):
                        return {"k": "echo", "o": index[name], "key": [], "v": v}
                except (ValueError, TypeError):
                    pass
            for wname, ty, wild in table_out:
                if wild and val is not None:
                    head, tail = wname.split(b"*")
                    if name.startswith(head) and name.endswith(tail) and len(name) >= len(head) + len(tail):
                        try:
                            return {"k": "echo", "o": index[wname], "key": chars(name[len(head):len(name) - len(tail)]),
                                    "v": iv(scaled(float(val)))}
                        except ValueError:
                            pass
        return {"k": "rawoutput", "o": 0, "key": chars(text[:200]), "v": iv(0)}

    def error(text):
        m = re.match(rb'^Unknown option or invalid key "(.*)"$', text, re.S)
        if m:
            return {"k": "unknown", "o": 0, "key": chars(m.group(1)), "v": iv(0)}
        m = re.match(rb'^Option "(.*)" doesn\'t accept an argument$', text, re.S)
        if m:
            return {"k": "flagarg", "o": 0, "key": chars(m.group(1)), "v": iv(0)}
        return {"k": "othererror", "o": 0, "key": chars(text[:200]), "v": iv(0)}

    ev = []
    for e in raw["ev"]:
        t = unhx(e["t"])
        if inp["files"] and e["k"] == "o" and re.match(rb"^  tech:optionfile = ", t):
            continue                 # the echo of the file-naming option itself (not one of the modelled options)
        ev.append(echo(t) if e["k"] == "o" else error(t) if e["k"] == "e" else
                  {"k": "exception", "o": 0, "key": chars(t[:200]), "v": iv(0)})

    def src(b): return {"set": b is not None, "txt": chars(b) if b is not None else []}
    env = inp["env"]
    return {"e": "Run", "id": raw["id"], "echoOn": inp["echo"], "thr": inp["thr"],
            "env": {"mp": src(env["mp"]), "exe": src(env["exe"]), "nam": src(env["nam"]), "exeKnown": inp["exeKnown"],
                    "argv": [chars(a) for a in env["argv"]], "argvFile": list(env["argvFile"])},
            "init": store(raw["init"]), "final": store(raw["final"]), "ev": ev,
            "threw": raw["threw"] != "", "rc": raw["rc"]}


def show_inputs(inp):
    env = inp["env"]
    parts = []
    for k, label in (("mp", "mp_options"), ("exe", "vexe_options"), ("nam", "vsolver_options")):
        if env[k] is not None:
            parts.append("%s=%r" % (label, env[k][:120]))
    if env["argv"]:
        parts.append("argv=%r" % [a[:120] for a in env["argv"]])
    return "; ".join(parts) + (" [throwing handler]" if inp["thr"] else "") + ("" if inp["echo"] else " [no echo]")


def shape_of(case):
    """stable description of the abstract case, part of the violation key"""
    if case["fam"] == "cls":
        return "cls:" + "".join(case["s"])
    return "hist:" + ("E" if case["exeKnown"] else "N") + ":" + ",".join(
        "%s.%s.%s%s" % (s["src"], s["it"]["k"], s["it"]["o"], s["it"]["v"] or "") for s in case["h"])


def crash_shape(case):
    """crashes are grouped by the shape up to the first quote (what follows does not matter)"""
    sh = shape_of(case)
    if case["fam"] == "cls" and "q" in case["s"]:
        i = case["s"].index("q")
        return "cls:" + "".join(case["s"][:i + 1]) + ("*" if i + 1 < len(case["s"]) else "")
    return sh


def run(tier):
    t0 = time.time()
    thorough = tier == "thorough"
    # (A) design check
    mc = tlc("MCOptions", "MCOptionsThorough.cfg" if thorough else "MCOptions.cfg", cwd=CORE, workers=NPROC,
             coverage=True, xmx="12g")
    tlc_must_pass(mc, "MCOptions")
    idle = [a for a, (taken, _) in mc.coverage.items() if a.startswith("Do") and taken == 0]
    if idle or not any(a.startswith("Do") for a in mc.coverage):
        raise Broken("MCOptions: stages never taken (vacuous design check): %s" % idle)
    # (B) abstract cases from TLC, rendered to bytes with the seed
    gen = tlc("GenOptions", "GenOptionsThorough.cfg" if thorough else "GenOptions.cfg", cwd=CORE, workers=NPROC, xmx="12g")
    tlc_must_pass(gen, "GenOptions")
    abstract = sorted(printed_json(gen, "CASE"), key=lambda c: json.dumps(c, sort_keys=True))
    if len(abstract) < 1000:
        raise Broken("GenOptions produced only %d cases" % len(abstract))
    rnd = random.Random(seed())
    shutil.rmtree(OPTDIR, ignore_errors=True)
    os.makedirs(OPTDIR)
    inputs = [concretize(c, i, rnd) for i, c in enumerate(abstract)]
    d = outdir(PID)
    tsv = os.path.join(d, "cases-%s.tsv" % tier)
    with open(tsv, "w") as f:
        for inp in inputs:
            env = inp["real"]
            for path_, content_ in inp["files"].items():
                with open(path_, "wb") as of_:
                    of_.write(content_)
            f.write("\t".join([str(inp["id"]), "1" if inp["echo"] else "0", "1" if inp["thr"] else "0",
                               "1" if inp["exeKnown"] else "0"] +
                              [hx(env[k]) if env[k] is not None else "-" for k in ("mp", "exe", "nam")] +
                              [";".join(hx(a) for a in env["argv"]) if env["argv"] else "-"]) + "\n")
    # (C) the real code
    exe = targets.get("h_options")
    rawp = os.path.join(d, "raw-%s.ndjson" % tier)
    rc, so, se = run_harness(exe, [tsv, rawp], timeout=1500,
                             env={"UBSAN_OPTIONS": "print_stacktrace=0:halt_on_error=1:exitcode=98",
                                  "ASAN_OPTIONS": "abort_on_error=0:detect_leaks=0:exitcode=99:symbolize=0"})
    if rc == 3:
        raise Broken("h_options rejected its input: " + se[-500:])
    raws = sanitize_trace(rawp, rc, "" if rc == 0 else se)
    table = []
    lines = [convert(r, inputs, table) for r in raws]
    if not lines or lines[0]["e"] != "Table":
        raise Broken("no option table from the harness")
    # the table first, on its own: a table that lost registered names makes everything after it meaningless
    tp = os.path.join(d, "table-%s.ndjson" % tier)
    with open(tp, "w") as f:
        f.write(json.dumps(lines[0]) + "\n")
    ok0, res0 = validate_trace("TraceOptions", "TraceOptions.cfg", tp, cwd=CORE, xmx="2g")
    if len(printed_json(res0, "DONE")) != 1:
        raise Broken("TraceOptions did not consume the table line\n" + res0.out[-2500:])
    if printed_json(res0, "BAD"):
        e = lines[0]
        names = [["".join(o["name"])] + ["".join(x) for x in o["syn"]] for o in e["opts"] if not o["builtin"]]
        v = Verdict(PID)
        v.violation("table:names", "the option table does not hold every registered name list as name + synonyms: registered %s, table %s"
                    % (json.dumps(["".join(x) for x in e["decls"]]), json.dumps(names)), {"table": names})
        rcode, nnew = v.finish()
        write_evidence(PID, tier, {"states": res0.distinct, "transitions": res0.generated, "traces_validated_against_impl": 1,
                                   "explanation": "the option table was rejected; nothing else was examined", "violations_new": nnew},
                       time.time() - t0, violations=nnew)
        return rcode
    accounted = {e["id"] for e in lines if e["e"] == "Run"} | {int(e["ctx"]) for e in lines if e["e"] == "Crash" and str(e.get("ctx", "")).isdigit()}
    if len(accounted) != len(inputs):
        raise Broken("harness accounted for %d of %d cases\n%s" % (len(accounted), len(inputs), se[-1500:]))
    chunks = []
    body = lines[1:]
    for n, i in enumerate(range(0, len(body), CHUNK)):
        p = os.path.join(d, "trace-%s-%03d.ndjson" % (tier, n))
        part = [lines[0]] + body[i:i + CHUNK]
        with open(p, "w") as f:
            for e in part:
                f.write(json.dumps(e) + "\n")
        chunks.append((p, part))
    def validate(ch):
        ok, res = validate_trace("TraceOptions", "TraceOptions.cfg", ch[0], cwd=CORE, xmx="4g")
        done = printed_json(res, "DONE")
        if len(done) != 1 or done[0]["n"] != len(ch[1]):
            raise Broken("TraceOptions did not consume %s\n%s" % (ch[0], res.out[-2500:]))
        return res
    with cf.ThreadPoolExecutor(max_workers=max(1, min(8, NPROC // 2))) as ex:
        results = list(ex.map(validate, chunks))
    v = Verdict(PID)
    found = {}
    nbad = 0
    for (p, part), res in zip(chunks, results):
        for b in printed_json(res, "BAD"):
            nbad += 1
            e = part[b["line"] - 1]
            if e["e"] == "Run":
                inp, case = inputs[e["id"]], abstract[e["id"]]
                if "untouched" in b["wrong"]:
                    raise Broken("case %d names a built-in option: %s" % (e["id"], show_inputs(inp)))
                for clause in b["wrong"]:
                    k = "%s:%s" % (clause, shape_of(case))
                    desc = "ParseOptions disagrees with Options.tla in '%s' for %s -- observed rc=%s threw=%s events=%s" % (
                        clause, show_inputs(inp), e["rc"], e["threw"],
                        json.dumps([[x["k"], "".join(x["key"])[:30]] for x in e["ev"]])[:300])
                    found.setdefault(k, [0, desc, {"abstract": case, "inputs": show_inputs(inp), "line": e}])[0] += 1
            elif e["e"] == "Table":
                names = [["".join(o["name"])] + ["".join(x) for x in o["syn"]] for o in e["opts"] if not o["builtin"]]
                found.setdefault("table:names", [0, "the option table does not hold every registered name list as name + synonyms: registered %s, table %s"
                                                 % (json.dumps(["".join(x) for x in e["decls"]]), json.dumps(names)), {"table": names}])[0] += 1
            elif e["e"] == "Crash" and str(e.get("ctx", "")).isdigit():
                inp, case = inputs[int(e["ctx"])], abstract[int(e["ctx"])]
                k = "crash:%s" % crash_shape(case)
                desc = "memory error / crash (%s) in ParseOptions for %s" % (e.get("what"), show_inputs(inp))
                found.setdefault(k, [0, desc, {"abstract": case, "inputs": show_inputs(inp), "crash": e}])[0] += 1
            else:
                found.setdefault("crash:harness", [0, "harness failed: " + json.dumps(e)[:600], e])[0] += 1
    for k in sorted(found):
        n, desc, payload = found[k]
        v.violation(k, "%s [%d case(s)]" % (desc, n), payload)
    rcode, nnew = v.finish()
    if found:
        log("violation keys (%d): %s" % (len(found), " ".join(sorted(found)[:400])))
    runs = [e for e in lines if e["e"] == "Run"]
    fams = {}
    for c in abstract:
        fams[c["fam"]] = fams.get(c["fam"], 0) + 1
    write_evidence(PID, tier, {
        "states": mc.distinct + gen.distinct + sum(r.distinct for r in results),
        "transitions": mc.generated + gen.generated + sum(r.generated for r in results),
        "traces_validated_against_impl": len(inputs),
        "samples": [abstract[0], abstract[len(abstract) // 2], show_inputs(inputs[len(inputs) // 2]),
                    json.dumps(runs[len(runs) // 3])[:900] if runs else ""],
        "cases_by_family": fams,
        "runs_with_errors_reported": sum(1 for e in runs if any(x["k"] in ("unknown", "flagarg") for x in e["ev"])),
        "runs_throwing_handler": sum(1 for e in runs if e["thr"]),
        "runs_predicted_exactly": sum(printed_json(r, "DONE")[0]["exact"] for r in results),
        "exhaustive": True,
        "explanation": "TLC enumerates every sequence of up to %d lexical classes (11 classes: names of int/real/wildcard, string and flag options, unknown words, blanks, '=', '?', quote, number, word, junk bytes) "
                       "plus the longer ones that start an assignment to a string option, and all histories of up to 2 (core items) / 3 (ordering items) steps over 5 sources; "
                       "each is rendered to bytes (seeded choice of synonym, letter case, '=' form, quoting, blanks, long and non-ASCII tokens), handed to the real ParseOptions in exactly sized heap blocks under ASan+UBSan, "
                       "and TLC re-tokenises the bytes with Options.tla and compares values, echo lines, error reports, return value / exception" % (5 if thorough else 4),
        "design_check": {"module": "MCOptions", "distinct_states": mc.distinct, "depth": mc.depth,
                         "action_coverage": {a: t for a, (t, g) in sorted(mc.coverage.items()) if a.startswith("Do")}},
        "rejected_lines": nbad, "violation_keys": len(found), "violations_new": nnew,
    }, time.time() - t0, violations=nnew,
        assumptions=["exact prediction only while every item is well-formed (number followed by a blank, terminated quote, non-empty value, decimal with <= 6+3 digits); afterwards only termination, memory safety and error accounting",
                     "the value following an unknown name that is itself a known option name is treated as ambiguous (not judged)",
                     "real values are compared on a grid of 1/1000; integers up to 6 digits"])
    return rcode


if __name__ == "__main__":
    main_wrapper(PID, run)
