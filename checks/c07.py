#!/usr/bin/env python3
"""C07 - the automatic solution check reports a violation iff the model is violated (SolCheck.tla)."""
import json, os, random, sys, time
sys.path.insert(0, os.path.join(os.path.dirname(os.path.abspath(__file__)), "..", "tools"))
from vlib import *
import targets, drv, cvtcases, flatmunge as fm

PID = "C07"
VARIANTS = [  # (name, mode or None, status, chkinfeas, fail)
    ("default", None, 0, False, False), ("default", None, 0, False, False),
    ("fail", None, 0, False, True), ("fail", None, 0, False, True),
    ("st200", None, 200, False, False), ("st200-chkinfeas", None, 200, True, False),
    ("mode0", 0, 0, False, False), ("modeall", 1023, 0, False, False), ("modeall-fail", 1023, 0, False, True),
    ("limit400-fail", None, 400, False, True),
    # the check is skipped for the infeasible class only (200..299): the neighbouring classes keep it
    ("st300", None, 300, False, False), ("st301-fail", None, 301, False, True), ("st349", None, 349, False, False),
    ("st199-fail", None, 199, False, True), ("st299", None, 299, False, False), ("st299-chkinfeas-fail", None, 299, True, True),
    ("st455", None, 455, False, False), ("st350-fail", None, 350, False, True),
]


def tolerance_stage(exe, tier, sd):
    """The tolerance clause (SolTol.tla): TLC-generated cases (item kind x reference magnitude x tolerances x
    discrepancy just below / at / above each threshold x check mode x fail) on a small linear model whose
    point is exact except for one item that is off by a power of two."""
    g = tlc("GenTol", "GenTol.cfg", cwd=sd, workers=NPROC)
    tlc_must_pass(g, "GenTol")
    gen = printed_json(g, "CASE")
    if len(gen) < 30000:
        raise Broken("GenTol produced %d cases" % len(gen))
    gen.sort(key=lambda c: json.dumps(c, sort_keys=True))
    rnd = random.Random(seed() + 11)
    if tier != "thorough":
        # every (what, mode, fail, threshold relation) class at least once, then a seeded sample
        def cls(c):
            return (c["what"], c["mode"], c["fail"], c["d"] - c["a"] if c["what"] != "int" else c["d"] - c["i"], c["bz"], c["rz"],
                    None if c["rz"] or c["bz"] else max(-2, min(2, c["d"] + c["k"] - c["r"])))
        order = list(range(len(gen))); rnd.shuffle(order)
        seen, keep = set(), []
        for i in order:
            k = cls(gen[i])
            if k not in seen:
                seen.add(k); keep.append(i)
        keep += [i for i in order if i not in set(keep)][:max(0, 2500 - len(keep))]
        gen = [gen[i] for i in sorted(keep)]
    runs = []
    for c in gen:
        b = 0.0 if c["bz"] else float(2 ** c["k"]) * (-1 if c["neg"] else 1)
        dl = 2.0 ** -c["d"]
        w = c["what"]
        # x0 in [L, U] continuous, x2 in [-100, 100] continuous, x1 in [0, 8] integer (NL order: x0, x2, x1)
        L, U, clb, cub = -50.0, 50.0, -1000.0, 1000.0
        x0, x2, x1 = 0.0, 0.0, 3.0
        obj_off = 0.0
        if w == "ub": U = b; x0 = b + dl
        elif w == "lb": L = b; x0 = b - dl
        elif w == "con_ub": cub = b; x2 = b + dl
        elif w == "con_lb": clb = b; x2 = b - dl
        elif w == "int": x1 = 3.0 + dl
        elif w == "obj": x0 = b; obj_off = dl if not c["neg"] else -dl
        model = {"vars": [{"lb": L, "ub": U}, {"lb": -100.0, "ub": 100.0}, {"lb": 0, "ub": 8, "int": True}],
                 "cons": [{"lb": clb, "ub": cub, "lin": [[0, 1], [1, 1]]}, {"lb": -1000.0, "ub": None, "lin": [[1, 1], [2, 1]]}],
                 "objs": [{"max": False, "lin": [[0, 1]]}]}
        opts = ["sol:chk:mode=%d" % c["mode"], "sol:chk:feastol=%r" % (2.0 ** -c["a"]),
                "sol:chk:feastolrel=%r" % (0.0 if c["rz"] else 2.0 ** -c["r"]), "sol:chk:inttol=%r" % (2.0 ** -c["i"]),
                "cvt:pre:all=0"]
        if c["fail"]: opts.append("sol:chk:fail")
        ans = "status 0 scripted\nprimal %r %r %r\nobjvals %r\n" % (x0, x2, x1, x0 + obj_off)
        runs.append({"id": len(runs), "model": model, "opts": opts, "answer": ans, "c": c})
    out = drv.run_cases(exe, PID + "t", runs)
    recs = []
    for r_, o in zip(runs, out):
        s = o["sol"]
        if o["hang"] or o["rc"] < 0:
            recs.append({"e": "Crash", "id": r_["id"]}); continue
        warn = bool(s and "Tolerance violations" in s["msg"])
        code = s["code"] if s and s["code"] is not None else -1
        if s and r_["c"]["fail"] and code == 150:
            warn = False
        recs.append({"e": "Tol", "id": r_["id"], "c": r_["c"], "o": {"solPresent": bool(s), "warn": warn, "code": code}})
    res = validate_parallel("TraceSolTol", "TraceSolTol.cfg", recs, sd, "c07t", chunks=4)
    verdicts = [v for r in res for v in printed_json(r, "VERDICT")]
    if len(verdicts) != len(recs):
        raise Broken("tolerance stage: verdict count %d != %d" % (len(verdicts), len(recs)))
    return g, res, runs, out, verdicts


def precision_stage(exe, tier, sd, v):
    """sol:chk:prec / sol:chk:round (SolPrec.tla): the check looks at the rounded point."""
    g = tlc("GenPrec", "GenPrec.cfg", cwd=sd, workers=NPROC)
    tlc_must_pass(g, "GenPrec")
    gen = sorted(printed_json(g, "CASE"), key=lambda c: json.dumps(c, sort_keys=True))
    if len(gen) != 2706:
        raise Broken("GenPrec produced %d cases" % len(gen))
    if sum(1 for c in gen if c["violated"]) < 500 or sum(1 for c in gen if c["r"] != c["c"]["m"]) < 800:
        raise Broken("GenPrec: too few cases where rounding matters")
    runs = []
    for c in gen:
        cc = c["c"]
        x = cc["m"] / 1e6
        t = c["t2"] / 2e6
        model = {"vars": [{"lb": -5000.0, "ub": 5000.0}, {"lb": 0.0, "ub": 1.0}],
                 "cons": [{"lb": None if cc["rel"] == "le" else t, "ub": t if cc["rel"] == "le" else None, "lin": [[0, 1], [1, 1]]}],
                 "objs": [{"max": False, "lin": [[0, 1]]}]}
        opts = ["sol:chk:mode=3", "sol:chk:feastol=1e-9", "sol:chk:feastolrel=0", "cvt:pre:all=0"]
        if cc["opt"] == "prec": opts.append("sol:chk:prec=%d" % cc["n"])
        if cc["opt"] == "round": opts.append("sol:chk:round=%d" % cc["n"])
        runs.append({"id": len(runs), "model": model, "opts": opts, "answer": "status 0 scripted\nprimal %r 0\nobjvals %r\n" % (x, x), "c": cc})
    out = drv.run_cases(exe, PID + "p", runs)
    lines = []
    for r_, o in zip(runs, out):
        s = o["sol"]
        if o["hang"] or o["rc"] != 0 or not s:
            lines.append({"e": "Crash", "id": r_["id"]}); continue
        lines.append({"e": "Run", "id": r_["id"], "c": r_["c"], "warn": "Tolerance violations" in s["msg"]})
    tp = os.path.join(outdir(PID), "prec-%s.ndjson" % tier)
    with open(tp, "w") as f:
        for e in lines:
            f.write(json.dumps(e) + "\n")
    ok, res = validate_trace("TraceSolPrec", "TraceSolPrec.cfg", tp, cwd=sd)
    done = printed_json(res, "DONE")
    if len(done) != 1 or done[0]["n"] != len(lines):
        raise Broken("TraceSolPrec did not consume the trace\n" + res.out[-2000:])
    for b in printed_json(res, "BAD"):
        r_ = runs[b["id"]]; cc = r_["c"]
        v.violation("prec-%s:%s:n%d:%s:%s" % ("missed" if b["want"] else "false-alarm", cc["opt"], cc["n"], cc["side"], "small" if abs(cc["m"]) < 1000000 else "large"),
                    "point x = %r, option %s=%d, constraint x %s %r: the rounded point is %r, so a violation %s be reported, but it %s"
                    % (cc["m"] / 1e6, cc["opt"], cc["n"], "<=" if cc["rel"] == "le" else ">=", gen[b["id"]]["t2"] / 2e6, b["rounded"] / 1e6,
                       "has to" if b["want"] else "must not", "was not" if b["want"] else "was"),
                    {"case": cc, "opts": r_["opts"], "answer": r_["answer"], "model": r_["model"]})
    return {"cases": len(gen), "rounding_matters": sum(1 for c in gen if c["r"] != c["c"]["m"]), "states": g.distinct + res.distinct,
            "transitions": g.generated + res.generated, "bad": len(printed_json(res, "BAD"))}


def run(tier):
    t0 = time.time()
    sd = os.path.join(SPECS, "flat")
    exe = targets.get("h_drv")
    gen, gres = cvtcases.generate()
    cfgs, acc = cvtcases.configs(exe)
    native = [c for c in cfgs if c[0] in ("native", "native-nocones")] + [("native-nopre", ["cvt:pre:all=0"]), ("native-noeq", ["cvt:pre:eqresult=0", "cvt:pre:eqbinary=0"])]
    n = 2400 if tier == "thorough" else 640      # about as many as there are (operator, use) strata
    cases = cvtcases.sample(gen, (native, acc), n, seed())
    # every model with an SOS set (few, and the only place where the SOS part of the check is exercised)
    for g_ in gen:
        if g_["kind"] == "sos":
            cases.append({"id": len(cases), "gen": g_, "cfgname": "native", "opts": []})
    # alldiff / !alldiff over continuous variables (AMPL allows them): a seeded handful of every use, always on
    # the half-integer grid and with more candidate points (values half a unit from another argument)
    rnda = random.Random(seed() + 19)
    contad = {}
    for g_ in gen:
        if g_["kind"] == "log" and g_["op"] in ("alldiff", "notalldiff", "not_alldiff") and sum(p_.startswith("c") for p_ in g_["pat"]) >= 1:
            contad.setdefault((g_["op"], g_["sh"]), []).append(g_)
    forced = set()
    for key_ in sorted(contad):
        for g_ in rnda.sample(contad[key_], min(len(contad[key_]), 3)):
            forced.add(len(cases))
            cases.append({"id": len(cases), "gen": g_, "cfgname": "native", "opts": []})
    for j, c in enumerate(cases):           # only native-style configurations (canonical aux values exist)
        c["cfgname"], c["opts"] = native[j % len(native)][0], list(native[j % len(native)][1])
        c["half_grid"] = (j % 3 == 0) or j in forced
    recs, stats = cvtcases.run_and_record(exe, PID, cases)
    canon_in = [dict(r, e="Canon") for r in recs if r.get("e") == "Case" and r["outcome"] == "converted" and not r["ng"]]
    res1 = validate_parallel("TraceSolCheck", "TraceSolCheck.cfg", canon_in, sd, "c07a")
    canon = {c["id"]: c["pts"] for r in res1 for c in printed_json(r, "CANON")}
    byid = {c["id"]: c for c in cases}
    nlrec = {r["id"]: r for r in recs if r.get("e") == "Case"}
    rnd = random.Random(seed() + 7)
    runs = []
    K = 6
    for cid in sorted(canon):
        pts = sorted(canon[cid], key=lambda q: q["p"])
        good = [q for q in pts if not q["viol"]]
        bad = [q for q in pts if q["viol"]]
        rnd.shuffle(good); rnd.shuffle(bad)
        # the extreme points of the first variable first (evaluators are most often wrong at the ends: beyond the
        # last breakpoint of a piecewise-linear term, at a domain end, ...)
        for lst in (good, bad):
            if len(lst) > 2:
                hi = max(range(len(lst)), key=lambda i_: lst[i_]["p"][0])
                lst.insert(0, lst.pop(hi))
                lo = min(range(1, len(lst)), key=lambda i_: lst[i_]["p"][0])
                lst.insert(1, lst.pop(lo))
        Kc = 4 * K if byid[cid]["gen"]["kind"] == "sos" or cid in forced else K
        for q in good[:Kc // 2] + bad[:Kc - min(len(good), Kc // 2)]:
            name, mode, st, chkinfeas, fail = VARIANTS[rnd.randrange(len(VARIANTS))]
            c = byid[cid]
            D = c["D"]
            opts = list(c["opts_full"])
            if mode is not None: opts.append("sol:chk:mode=%d" % mode)
            if chkinfeas: opts.append("sol:chk:infeas")
            if fail: opts.append("sol:chk:fail")
            ans = "status %d scripted\nprimal %s\nobjvals %r\n" % (st, " ".join(repr(v / D) for v in q["x"]), q["obj"] / D)
            runs.append({"id": len(runs), "model": c["model"], "opts": opts, "answer": ans,
                         "meta": {"cid": cid, "p": q["p"], "mode": 515 if mode is None else mode, "st": st,
                                  "chkinfeas": chkinfeas, "fail": fail, "variant": name, "viol_pred": q["viol"]}})
    out = drv.run_cases(exe, PID + "b", runs)
    checks = []
    for r_, o in zip(runs, out):
        m = r_["meta"]
        s = o["sol"]
        rec = {"e": "Check", "id": r_["id"], "D": byid[m["cid"]]["D"], "nl": nlrec[m["cid"]]["nl"], "p": m["p"],
               "mode": m["mode"], "st": m["st"], "chkinfeas": m["chkinfeas"], "fail": m["fail"],
               "solPresent": bool(s), "warn": bool(s and "Tolerance violations" in s["msg"] and not ("MP solution check failed" in s["msg"] and False)),
               "code": s["code"] if s and s["code"] is not None else -1}
        if s and m["fail"] and s["code"] == 150:
            rec["warn"] = False   # with sol:chk:fail the report is the error message, not a warning
        if o["hang"] or o["rc"] < 0:
            rec = {"e": "Crash", "id": r_["id"]}
        checks.append(rec)
    res2 = validate_parallel("TraceSolCheck", "TraceSolCheck.cfg", checks, sd, "c07b")
    verdicts = [v for r in res2 for v in printed_json(r, "VERDICT")]
    if len(verdicts) != len(checks):
        raise Broken("verdict count %d != %d" % (len(verdicts), len(checks)))
    v = Verdict(PID)
    tally = {}
    for vd in verdicts:
        tally[vd["v"]] = tally.get(vd["v"], 0) + 1
        if vd["v"] == "ok":
            continue
        r_ = runs[vd["id"]] if vd["id"] >= 0 else None
        m = r_["meta"] if r_ else {}
        g = byid[m["cid"]]["gen"] if r_ else {}
        key = "%s:%s:%s:%s:%s:%s:k%s:%s:%s" % (vd["v"], g.get("kind"), g.get("op"), g.get("sh"), "-".join(g.get("pat", [])), g.get("use"), g.get("k"), byid[m["cid"]]["cfgname"] if r_ else "", m.get("variant"))
        sol = out[vd["id"]]["sol"] if r_ else None
        v.violation(key, "model %s/%s shape=%s domains=%s use=%s k=%s config=%s, point %s (violated=%s), variant %s: %s; message: %s" %
                    (g.get("kind"), g.get("op"), g.get("sh"), g.get("pat"), g.get("use"), g.get("k"), byid[m["cid"]]["cfgname"] if r_ else "", m.get("p"), m.get("viol_pred"), m.get("variant"), vd["v"], (sol["msg"][:300] if sol else None)),
                    {"gen": g, "meta": m, "opts": r_["opts"] if r_ else None, "answer": r_["answer"] if r_ else None})
    # the tolerance clause
    gt, rest, truns, tout, tverd = tolerance_stage(exe, tier, sd)
    ttally = {}
    for vd in tverd:
        ttally[vd["v"]] = ttally.get(vd["v"], 0) + 1
        if vd["v"] == "ok":
            continue
        r_ = truns[vd["id"]] if vd["id"] >= 0 else None
        c = r_["c"] if r_ else {}
        rel = "abs%+d" % (c["a"] - c["d"]) if c and c["what"] != "int" else ("int%+d" % (c["i"] - c["d"]) if c else "")
        if c and c["what"] != "int":
            rel += ":b0" if c["bz"] else ":r0" if c["rz"] else ":rel%+d" % (c["r"] - c["d"] - c["k"])
        key = "tol:%s:%s:%s:mode%s:%s" % (vd["v"], c.get("what"), rel, c.get("mode"), "fail" if c.get("fail") else "warn")
        sol = tout[vd["id"]]["sol"] if r_ else None
        v.violation(key, "tolerance clause: %s off by 2^-%s against reference %s with feastol 2^-%s, feastolrel %s, inttol 2^-%s, sol:chk:mode=%s%s: %s; message: %s" %
                    (c.get("what"), c.get("d"), "0" if c.get("bz") else "%s2^%s" % ("-" if c.get("neg") else "", c.get("k")), c.get("a"),
                     "0" if c.get("rz") else "2^-%s" % c.get("r"), c.get("i"), c.get("mode"), " sol:chk:fail" if c.get("fail") else "",
                     vd["v"], (sol["msg"][:300] if sol else None)),
                    {"case": c, "opts": r_["opts"] if r_ else None, "answer": r_["answer"] if r_ else None})
    prec = precision_stage(exe, tier, sd, v)
    rcode, nnew = v.finish()
    # non-vacuity of the tolerance clause: every item kind was both reported and accepted
    tout_by = {}
    for r_, o in zip(truns, tout):
        s_ = o["sol"]
        rep = bool(s_ and ("Tolerance violations" in s_["msg"] or s_["code"] == 150))
        k_ = "%s:%s" % (r_["c"]["what"], "reported" if rep else "accepted")
        tout_by[k_] = tout_by.get(k_, 0) + 1
    if rcode == 0:
        for w in ("ub", "lb", "con_ub", "con_lb", "int", "obj"):
            if not tout_by.get(w + ":reported") or not tout_by.get(w + ":accepted"):
                raise Broken("tolerance clause vacuous for '%s': %s" % (w, tout_by))
    allres = res1 + res2 + rest
    write_evidence(PID, tier, {
        "precision_stage": prec,
        "states": gres.distinct + sum(r.distinct for r in allres), "transitions": gres.generated + sum(r.generated for r in allres),
        "traces_validated_against_impl": len(checks),
        "samples": [runs[i]["meta"] for i in (0, len(runs) // 2, len(runs) - 1)] if runs else ["none"],
        "evaluations": len(checks) + len(truns), "verdicts": tally, "tolerance_cases": len(truns), "tolerance_verdicts": ttally, "tolerance_outcomes": tout_by, "models": len(canon), "conversion_stats": stats,
        "points_violated": sum(1 for r in runs if r["meta"]["viol_pred"]), "points_satisfied": sum(1 for r in runs if not r["meta"]["viol_pred"]),
        "explanation": "models from GenNL converted natively; TLC computes candidate points (grid + just outside each bound) with the canonical (true) values of all auxiliary expressions; each is fed back as the scripted solver answer under check variants (default, fail, infeasible status with/without sol:chk:infeas, mode 0 / all); TLC validates the reported warning / code against SolCheck.tla; tolerance clause (SolTol.tla): TLC-generated cases on a linear model whose point is exact except for one item (variable bound, row bound, integrality, objective value) off by a power of two just below / at / above the absolute, relative and integrality thresholds, under 9 check modes and sol:chk:fail",
        "violations_new": nnew,
    }, time.time() - t0, violations=nnew,
        assumptions=["stage 1/2: integer-valued candidate points (violations are >= 1, far from the 1e-6 tolerance); tolerance stage: all magnitudes are powers of two, so the doubles are exact and the documented rule (v > feastol and (b = 0 or v/|b| > feastolrel); |x - round x| > inttol) is decided on exponents", "canonical auxiliary values require native acceptance of functional constraints"])
    return rcode

if __name__ == "__main__":
    main_wrapper(PID, run)
