#!/usr/bin/env python3
"""C07 - the automatic solution check reports a violation iff the model is violated (SolCheck.tla)."""
import json, os, random, sys, time
sys.path.insert(0, os.path.join(os.path.dirname(os.path.abspath(__file__)), "..", "tools"))
from vlib import *
import targets, drv, cvtcases, flatmunge as fm

PID = "C07"
VARIANTS = [  # (name, mode or None, status, chkinfeas, fail)
    ("default", None, 0, False, False), ("default", None, 0, False, False),
    ("fail", None, 0, False, True), ("fail", None, 0, False, True),
    ("st200", None, 200, False, False), ("st200-chkinfeas", None, 200, True, False),
    ("mode0", 0, 0, False, False), ("modeall", 1023, 0, False, False), ("modeall-fail", 1023, 0, False, True),
    ("limit400-fail", None, 400, False, True),
]


def run(tier):
    t0 = time.time()
    sd = os.path.join(SPECS, "flat")
    exe = targets.get("h_drv")
    gen, gres = cvtcases.generate()
    # SOS membership given by suffixes is not among the things C07's statement lists
    # (bounds, integrality, algebraic and logical constraints): those models are left to C01
    gen = [g_ for g_ in gen if g_["kind"] != "sos"]
    cfgs, acc = cvtcases.configs(exe)
    native = [c for c in cfgs if c[0] in ("native", "native-nocones")] + [("native-nopre", ["cvt:pre:all=0"]), ("native-noeq", ["cvt:pre:eqresult=0", "cvt:pre:eqbinary=0"])]
    n = 2400 if tier == "thorough" else 320
    cases = cvtcases.sample(gen, (native, acc), n, seed())
    for j, c in enumerate(cases):           # only native-style configurations (canonical aux values exist)
        c["cfgname"], c["opts"] = native[j % len(native)][0], list(native[j % len(native)][1])
        c["half_grid"] = (j % 3 == 0)
    recs, stats = cvtcases.run_and_record(exe, PID, cases)
    canon_in = [dict(r, e="Canon") for r in recs if r.get("e") == "Case" and r["outcome"] == "converted" and not r["ng"]]
    res1 = validate_parallel("TraceSolCheck", "TraceSolCheck.cfg", canon_in, sd, "c07a")
    canon = {c["id"]: c["pts"] for r in res1 for c in printed_json(r, "CANON")}
    byid = {c["id"]: c for c in cases}
    nlrec = {r["id"]: r for r in recs if r.get("e") == "Case"}
    rnd = random.Random(seed() + 7)
    runs = []
    K = 6
    for cid in sorted(canon):
        pts = sorted(canon[cid], key=lambda q: q["p"])
        good = [q for q in pts if not q["viol"]]
        bad = [q for q in pts if q["viol"]]
        rnd.shuffle(good); rnd.shuffle(bad)
        for q in good[:K // 2] + bad[:K - min(len(good), K // 2)]:
            name, mode, st, chkinfeas, fail = VARIANTS[rnd.randrange(len(VARIANTS))]
            c = byid[cid]
            D = c["D"]
            opts = list(c["opts_full"])
            if mode is not None: opts.append("sol:chk:mode=%d" % mode)
            if chkinfeas: opts.append("sol:chk:infeas")
            if fail: opts.append("sol:chk:fail")
            ans = "status %d scripted\nprimal %s\nobjvals %r\n" % (st, " ".join(repr(v / D) for v in q["x"]), q["obj"] / D)
            runs.append({"id": len(runs), "model": c["model"], "opts": opts, "answer": ans,
                         "meta": {"cid": cid, "p": q["p"], "mode": 515 if mode is None else mode, "st": st,
                                  "chkinfeas": chkinfeas, "fail": fail, "variant": name, "viol_pred": q["viol"]}})
    out = drv.run_cases(exe, PID + "b", runs)
    checks = []
    for r_, o in zip(runs, out):
        m = r_["meta"]
        s = o["sol"]
        rec = {"e": "Check", "id": r_["id"], "D": byid[m["cid"]]["D"], "nl": nlrec[m["cid"]]["nl"], "p": m["p"],
               "mode": m["mode"], "st": m["st"], "chkinfeas": m["chkinfeas"], "fail": m["fail"],
               "solPresent": bool(s), "warn": bool(s and "Tolerance violations" in s["msg"] and not ("MP solution check failed" in s["msg"] and False)),
               "code": s["code"] if s and s["code"] is not None else -1}
        if s and m["fail"] and s["code"] == 150:
            rec["warn"] = False   # with sol:chk:fail the report is the error message, not a warning
        if o["hang"] or o["rc"] < 0:
            rec = {"e": "Crash", "id": r_["id"]}
        checks.append(rec)
    res2 = validate_parallel("TraceSolCheck", "TraceSolCheck.cfg", checks, sd, "c07b")
    verdicts = [v for r in res2 for v in printed_json(r, "VERDICT")]
    if len(verdicts) != len(checks):
        raise Broken("verdict count %d != %d" % (len(verdicts), len(checks)))
    v = Verdict(PID)
    tally = {}
    for vd in verdicts:
        tally[vd["v"]] = tally.get(vd["v"], 0) + 1
        if vd["v"] == "ok":
            continue
        r_ = runs[vd["id"]] if vd["id"] >= 0 else None
        m = r_["meta"] if r_ else {}
        g = byid[m["cid"]]["gen"] if r_ else {}
        key = "%s:%s:%s:%s:%s:%s:k%s:%s:%s" % (vd["v"], g.get("kind"), g.get("op"), g.get("sh"), "-".join(g.get("pat", [])), g.get("use"), g.get("k"), byid[m["cid"]]["cfgname"] if r_ else "", m.get("variant"))
        sol = out[vd["id"]]["sol"] if r_ else None
        v.violation(key, "model %s/%s shape=%s domains=%s use=%s k=%s config=%s, point %s (violated=%s), variant %s: %s; message: %s" %
                    (g.get("kind"), g.get("op"), g.get("sh"), g.get("pat"), g.get("use"), g.get("k"), byid[m["cid"]]["cfgname"] if r_ else "", m.get("p"), m.get("viol_pred"), m.get("variant"), vd["v"], (sol["msg"][:300] if sol else None)),
                    {"gen": g, "meta": m, "opts": r_["opts"] if r_ else None, "answer": r_["answer"] if r_ else None})
    rcode, nnew = v.finish()
    allres = res1 + res2
    write_evidence(PID, tier, {
        "states": gres.distinct + sum(r.distinct for r in allres), "transitions": gres.generated + sum(r.generated for r in allres),
        "traces_validated_against_impl": len(checks),
        "samples": [runs[i]["meta"] for i in (0, len(runs) // 2, len(runs) - 1)] if runs else ["none"],
        "evaluations": len(checks), "verdicts": tally, "models": len(canon), "conversion_stats": stats,
        "points_violated": sum(1 for r in runs if r["meta"]["viol_pred"]), "points_satisfied": sum(1 for r in runs if not r["meta"]["viol_pred"]),
        "explanation": "models from GenNL converted natively; TLC computes candidate points (grid + just outside each bound) with the canonical (true) values of all auxiliary expressions; each is fed back as the scripted solver answer under check variants (default, fail, infeasible status with/without sol:chk:infeas, mode 0 / all); TLC validates the reported warning / code against SolCheck.tla",
        "violations_new": nnew,
    }, time.time() - t0, violations=nnew,
        assumptions=["integer-valued candidate points (violations are >= 1, far from the 1e-6 tolerance)", "canonical auxiliary values require native acceptance of functional constraints"])
    return rcode

if __name__ == "__main__":
    main_wrapper(PID, run)
