#!/usr/bin/env python3
"""C04 - solutions and suffixes return to the original model's items intact (ValMap.tla)."""
import json, os, random, sys, time
sys.path.insert(0, os.path.join(os.path.dirname(os.path.abspath(__file__)), "..", "tools"))
from vlib import *
import targets, drv, cvtcases, nlgen

PID = "C04"
INF = 500000000
BODIES = [[[0, 1], [1, 1]], [[0, 1], [2, -1]], [[1, 2], [2, 1]], [[0, 1], [1, 1], [2, 1]]]
V = lambda i: ["v", i]
N = lambda c: ["n", c]
O = lambda op, *a: ["o", op] + list(a)


def row(kind, k):
    if kind == "free": return None, None
    if kind == "range": return 1 + k, 5 + k
    if kind == "le": return None, 3 + k
    if kind == "ge": return -1 - k, None
    return 2 + k, 2 + k


def build(a, rnd):
    m = {"vars": [{"lb": 0, "ub": 10}, {"lb": 0, "ub": 10}, {"lb": -5, "ub": 5}], "cons": [], "lcons": [],
         "objs": [{"max": False, "lin": [[0, 1], [1, 1], [2, 1]]}]}
    for k, kind in enumerate(a["rows"]):
        lb, ub = row(kind, k)
        m["cons"].append({"lb": lb, "ub": ub, "lin": BODIES[k]})
    if "abs" in a["extra"]:
        m["cons"].append({"lb": None, "ub": 4, "lin": [], "expr": O(15, O(1, V(0), V(1)))})
    if "logic" in a["extra"]:
        m["lcons"].append(O(20, O(28, V(0), N(1)), O(28, V(2), N(1))))
    if "fixmaxc" in a["extra"]:
        m["vars"][2] = {"lb": 3, "ub": 3}
        m["cons"].append({"lb": None, "ub": 9, "lin": [], "expr": O(12, V(0), N(3))})
    if "logic3" in a["extra"]:      # two more logical constraints (three in all)
        m["lcons"].append(O(20, O(28, V(1), N(2)), O(23, V(2), N(0))))
        m["lcons"].append(O(20, O(23, V(0), N(8)), O(28, V(1), N(1))))
    if "ite" in a["extra"]:
        m["cons"].append({"lb": None, "ub": 4, "lin": [], "expr": O(35, O(28, V(0), N(1)), V(1), V(2))})
    if "max" in a["extra"]:
        m["cons"].append({"lb": 1, "ub": None, "lin": [], "expr": O(12, V(0), V(1), O(16, V(2)))})
    if "sos" in a["extra"]:
        sosno = -2 if "sos2" in a["extra"] else 1
        m["suffixes"] = m.get("suffixes", []) + [{"kind": 0, "name": "sosno", "vals": {0: sosno, 1: sosno, 2: sosno}},
                                                 {"kind": 0, "name": "ref", "real": True, "vals": {0: 1.0, 1: 2.0, 2: 3.0}}]
    nc = len(m["cons"])
    inp = {"x0": [rnd.randint(0, 9), rnd.randint(0, 9), 3 if "fixmaxc" in a["extra"] else rnd.randint(-4, 4)], "pri": [rnd.randint(1, 9) for _ in range(3)],
           "varstt": [rnd.choice([1, 3, 4, 2]) for _ in range(3)], "constt": [rnd.choice([1, 3, 4, 5]) for _ in range(nc)],
           "lazy": [rnd.choice([1, -1, 2]) for _ in range(nc)]}
    inp["y0"] = [9000 + 7 * i + rnd.randint(0, 5) for i in range(nc)]     # larger than any scripted dual
    inp["basis_in"] = rnd.random() < 0.5          # incoming basis, else primal/dual warm start
    if a["tr"] in ("inputs", "all"):
        m["x0"] = {i: v for i, v in enumerate(inp["x0"])}
        m["y0"] = {i: v for i, v in enumerate(inp["y0"])}
        m["suffixes"] = m.get("suffixes", []) + [{"kind": 0, "name": "priority", "vals": {i: v for i, v in enumerate(inp["pri"])}},
                         {"kind": 1, "name": "lazy", "vals": {i: v for i, v in enumerate(inp["lazy"])}}]
        if inp["basis_in"]:
            m["suffixes"] += [{"kind": 0, "name": "sstatus", "vals": {i: v for i, v in enumerate(inp["varstt"])}},
                              {"kind": 1, "name": "sstatus", "vals": {i: v for i, v in enumerate(inp["constt"])}}]
    cm, perm, corder = nlgen.canonical(m)
    # inputs re-expressed for the file-order items
    inv = {new: old for old, new in enumerate(perm)}
    cinp = {"x0": [inp["x0"][inv[j]] for j in range(3)], "pri": [inp["pri"][inv[j]] for j in range(3)],
            "varstt": [inp["varstt"][inv[j]] for j in range(3)],
            "constt": [inp["constt"][i] for i in corder], "lazy": [inp["lazy"][i] for i in corder],
            "y0": [inp["y0"][i] for i in corder]}
    return cm, cinp


def script(a, rnd):
    L = 24
    ans = {"x": [], "y": [], "varstt": [rnd.choice([1, 3, 4, 2, 5]) for _ in range(L)], "constt": [rnd.choice([1, 3, 4, 5]) for _ in range(L)],
           "variis": [rnd.choice([0, 0, 1, 2, 3]) for _ in range(L)], "coniis": [rnd.choice([0, 1, 2, 3]) for _ in range(L)]}
    st = 200 if a["tr"] in ("iis",) else 0
    txt = "status %d scripted\nprimal auto\ndual auto\nobjvals 3\n" % st
    if a["tr"] in ("sol+basis", "all"):
        txt += "varstt %s\nconstt 3 %s\n" % (" ".join(map(str, ans["varstt"])), " ".join(map(str, ans["constt"])))
    if a["tr"] in ("iis", "all"):
        txt += "variis %s\nconiis 3 %s\n" % (" ".join(map(str, ans["variis"])), " ".join(map(str, ans["coniis"])))
    return ans, txt, st


SHARED_F = {"abs": (lambda: O(15, O(1, V(0), V(1))), "AbsConstraint"), "max": (lambda: O(12, V(0), V(1)), "MaxConstraint"),
            "min": (lambda: O(11, V(0), V(2)), "MinConstraint"), "exp": (lambda: O(44, V(2)), "ExpConstraint")}
SHARED_G = (lambda: O(15, O(1, V(1), V(2))), "AbsConstraint")        # another function, never flagged (for f = abs: max)


def shared_stage(tier, exe, v, d):
    """Stage 3 (Shared.tla): a functional expression shared by several original constraints; the IIS flag of its one
    flat constraint has to come back to every constraint that contains it and to no other."""
    sd = os.path.join(SPECS, "valcvt")
    gs = tlc("GenShared", "GenShared.cfg", cwd=sd, workers=NPROC)
    tlc_must_pass(gs, "GenShared")
    gen = sorted(printed_json(gs, "CASE"), key=lambda c: json.dumps(c, sort_keys=True))
    if len(gen) != 84:
        raise Broken("GenShared produced %d cases" % len(gen))
    runs0 = []
    for j, c in enumerate(gen):
        fexpr, ftype = SHARED_F[c["f"]]
        gexpr, gtype = SHARED_G if c["f"] != "abs" else (lambda: O(12, V(1), V(2)), "MaxConstraint")
        m = {"vars": [{"lb": 0, "ub": 10}, {"lb": 0, "ub": 10}, {"lb": -5, "ub": 5}], "cons": [], "lcons": [],
             "objs": [{"max": False, "lin": [[0, 1], [1, 1], [2, 1]]}]}
        for k in range(3):
            e = None
            if c["uses"][k]:
                e = fexpr()
            if c["g"][k]:
                e = gexpr() if e is None else O(0, e, gexpr())
            m["cons"].append({"lb": None, "ub": 30 + k, "lin": BODIES[k], "expr": e})
        cm, perm, corder = nlgen.canonical(m)
        runs0.append({"id": j, "model": cm, "opts": ["alg:iisfind=1", "sol:chk:mode=0", "cvt:expcones=0"], "answer": "status 200 scripted\n", "c": c,
                      "ftype": ftype, "corder": corder})
    first = drv.run_cases(exe, PID + "s0", runs0)
    runs1 = []
    for r0, o in zip(runs0, first):
        cons = [e for e in o["rec"] if e["e"] == "Con"]
        bygrp = {}
        for e in cons:
            bygrp.setdefault(e["grp"], []).append(1 if e["type"] == r0["ftype"] else 0)
        nfl = sum(sum(x) for x in bygrp.values())
        txt = "status 200 scripted\nvariis %s\n" % " ".join("0" for _ in range(24))
        for g_, flags in sorted(bygrp.items()):
            txt += "coniis %d %s\n" % (g_, " ".join("3" if f_ else "0" for f_ in flags))
        runs1.append(dict(r0, answer=txt, nflagged=nfl))
    second = drv.run_cases(exe, PID + "s1", runs1)
    lines = []
    for r1, o in zip(runs1, second):
        s_ = o["sol"]
        if o["hang"] or o["rc"] != 0 or not s_:
            lines.append({"e": "Crash", "id": r1["id"], "rc": o["rc"], "stderr": o["stderr"][-200:]})
            continue
        iis = [0, 0, 0]
        for sf in s_["suffixes"]:
            if sf["name"] == "iis" and (sf["kind"] & 3) == 1:
                for pos in range(3):                       # file position -> original row
                    iis[r1["corder"][pos]] = int(sf["vals"].get(pos, 0))
        lines.append({"e": "Run", "id": r1["id"], "c": r1["c"], "iis": iis, "nflagged": r1["nflagged"]})
    tp = os.path.join(d, "shared-%s.ndjson" % tier)
    with open(tp, "w") as f:
        for e in lines:
            f.write(json.dumps(e) + "\n")
    ok, res = validate_trace("TraceShared", "TraceShared.cfg", tp, cwd=sd)
    done = printed_json(res, "DONE")
    if len(done) != 1 or done[0]["n"] != len(lines):
        raise Broken("TraceShared did not consume the trace\n" + res.out[-2000:])
    for b in printed_json(res, "BAD"):
        r1 = runs1[b["id"]]
        c = r1["c"]
        for w in sorted(b["wrong"]):
            v.violation("shared-%s:%s:%s" % (w, c["f"], "".join("u" if u else "-" for u in c["uses"])),
                        "%s(..) in rows %s (another function in rows %s): the IIS flag of its flat constraint came back as .iis = %s (%s)"
                        % (c["f"], [k for k in range(3) if c["uses"][k]], [k for k in range(3) if c["g"][k]], lines[b["line"] - 1].get("iis"), w),
                        {"case": c, "model": r1["model"], "answer": r1["answer"], "observed": lines[b["line"] - 1]})
    return {"cases": len(gen), "states": gs.distinct + res.distinct, "transitions": gs.generated + res.generated, "bad": len(printed_json(res, "BAD"))}


def ival(x):
    if isinstance(x, str):
        return INF if x == "inf" else -INF
    return int(x) if float(x) == int(x) and abs(x) < 4e8 else 399999999


def run(tier):
    t0 = time.time()
    sd = os.path.join(SPECS, "valcvt")
    # (A) design check of the value presolver model: link folds, conflict rule, clean-up
    mc = tlc("MCValCvt", "MCValCvt.cfg", cwd=sd, workers=NPROC)
    tlc_must_pass(mc, "MCValCvt")
    neg = tlc("MCValCvt", "MCValCvt_nocleanup.cfg", cwd=sd, workers=NPROC)
    if neg.violated != "HistoryIndependent":
        raise Broken("design self-test: removing the clean-up step must violate HistoryIndependent (got %s)" % neg.violated)
    g = tlc("GenVal", "GenVal.cfg", cwd=sd, workers=NPROC)
    tlc_must_pass(g, "GenVal")
    gen = printed_json(g, "CASE")
    if len(gen) != 775 * 5 * 3 * 5:
        raise Broken("GenVal produced %d cases" % len(gen))
    gen.sort(key=lambda c: json.dumps(c, sort_keys=True))
    rnd = random.Random(seed())
    n = 6000 if tier == "thorough" else 640
    picks = sorted(rnd.sample(range(len(gen)), n))
    exe = targets.get("h_drv_asan" if tier == "thorough" else "h_drv")   # thorough: ASan/UBSan build
    cfgs, acc = cvtcases.configs(exe)
    linear_opts = dict(cfgs)["mip-linear"]
    cases = []
    for j, i in enumerate(picks):
        a = gen[i]
        m, inp = build(a, rnd)
        ans, txt, st = script(a, rnd)
        opts = {"native": [], "slack": [acc["LinConRange"]["opt"] + "=0"], "linear": list(linear_opts)}[a["rmode"]]
        opts += ["alg:basis=3", "alg:start=1"]
        if a["tr"] in ("iis", "all"):
            opts += ["alg:iisfind=1"]
        if st == 200:
            opts += ["sol:chk:mode=0"]
        cases.append({"id": j, "model": m, "opts": opts, "answer": txt, "a": a, "inp": inp, "ans": ans, "st": st})
    runs = drv.run_cases(exe, PID, cases)
    recs = []
    for c, r in zip(cases, runs):
        s = r["sol"]
        if r["hang"] or r["rc"] != 0 or not s or not any(e["e"] == "FinishProblemModificationPhase" for e in r["rec"]):
            recs.append({"e": "Crash", "id": c["id"], "rc": r["rc"], "msg": (s or {}).get("msg", "")[:200], "stderr": r["stderr"][:200]})
            continue
        info = r["nlinfo"]
        m = c["model"]
        if info["perm"] != [0, 1, 2] or info["corder"] != list(range(len(m["cons"]))):
            raise Broken("model not in canonical order")
        corder = info["corder"]
        n0 = 3
        ocons = []
        for i in corder:
            cc = m["cons"][i]
            ocons.append({"lin": [[v, cf] for v, cf in cc["lin"]], "lb": -INF if cc["lb"] is None else cc["lb"], "ub": INF if cc["ub"] is None else cc["ub"],
                          "linear": cc.get("expr") is None})
        perm_inp = c["inp"]
        rows, vars_ = [], []
        got = {"hasDualStart": False, "y0": [], "hasStart": False, "x0": [], "hasPri": False, "pri": [], "hasBasis": False, "varstt": [], "constt": [], "hasLazy": False, "lazy": []}
        for ev in r["rec"]:
            if ev["e"] == "Vars":
                vars_ = [{"lb": ival(lb), "ub": ival(ub)} for lb, ub in zip(ev["lb"], ev["ub"])]
            elif ev["e"] == "Con" and ev["grp"] == 3:
                d = ev["d"]
                rows.append({"lin": [[v, ival(cf)] for cf, v in d["lin"]], "lb": ival(d["lb"]), "ub": ival(d["ub"])})
            elif ev["e"] == "MIPStart":
                got.update(hasStart=True, x0=[ival(x) for x in ev["x"]])
            elif ev["e"] == "PrimalDualStart":
                got.update(hasDualStart=True, y0=[ival(y) for y in ev["y"].get("3", [])])
            elif ev["e"] == "VarPriorities":
                got.update(hasPri=True, pri=ev["vars"])
            elif ev["e"] == "SetBasis":
                got.update(hasBasis=True, varstt=ev["vars"], constt=ev["cons"].get("3", []))
            elif ev["e"] == "LazyUserCuts":
                got.update(hasLazy=True, lazy=ev["cons"].get("3", []))
        ans = dict(c["ans"])
        ans["x"] = [i + 1 for i in range(len(vars_))]
        ans["y"] = [3000 + j + 1 for j in range(len(rows))]
        nc = len(ocons)
        def suffix(name, kind, n):
            for sf in s["suffixes"]:
                if sf["name"] == name and (sf["kind"] & 3) == kind:
                    return [int(sf["vals"].get(i, 0)) for i in range(n)]
            return None
        vs, cs = suffix("sstatus", 0, n0), suffix("sstatus", 1, nc)
        vi, ci = suffix("iis", 0, n0), suffix("iis", 1, nc)
        out = {"hasPrimal": s["nprimal"] > 0, "primal": [ival(x) for x in s["primal"]], "hasDual": s["ndual"] > 0, "dual": [ival(x) for x in s["dual"]],
               "hasBasis": vs is not None or cs is not None, "varstt": vs or [], "constt": cs or [],
               "hasIIS": vi is not None or ci is not None, "variis": vi or [], "coniis": ci or []}
        if a_wants_inputs(c["a"]) is False:
            got.update(hasStart=False, hasPri=False, hasBasis=False, hasLazy=False, hasDualStart=False)
        recs.append({"e": "Case", "id": c["id"], "n0": n0, "ocons": ocons, "rows": rows, "vars": vars_, "ans": ans, "out": out, "got": got, "inp": perm_inp})
    # ---- stage 2: TLC-generated histories of direct pre-/postsolve calls on the converted model
    gh = tlc("GenHist", "GenHist.cfg", cwd=sd, workers=NPROC)
    tlc_must_pass(gh, "GenHist")
    hists = sorted((c["h"] for c in printed_json(gh, "CASE")), key=json.dumps)
    if len(hists) != 12 + 144 + 1728:
        raise Broken("GenHist produced %d histories" % len(hists))
    VAL = {"sol": lambda t: rnd.randint(1, 9) + 20 * (3 - t), "gdbl": lambda t: rnd.randint(1, 9) + 20 * (3 - t), "gint": lambda t: rnd.randint(1, 9) + 20 * (3 - t),
           "lazy": lambda t: rnd.choice([1, 2, 3]), "basis": lambda t: rnd.choice([5, 4] if t == 0 else [1, 3, 4, 5]), "iis": lambda t: rnd.choice([3, 2] if t == 0 else [1, 2, 3])}
    hruns = []
    okrecs = [x for x in recs if x["e"] == "Case"]
    per = 3 if tier == "thorough" else 1
    for rec in okrecs:
        c = cases[rec["id"]]
        for _ in range(per):
            h = hists[rnd.randrange(len(hists))]
            lines, xs = [], []
            nv, nrows, nc = len(rec["vars"]), len(rec["rows"]), len(rec["ocons"])
            for t, (d, k) in enumerate(h):
                if d == "post":
                    iv, ic = [VAL[k](t) for _ in range(nv)], [VAL[k](t) for _ in range(nrows)]
                    lines.append("hist post %s | vars %s | cons 3 %s" % (k, " ".join(map(str, iv)), " ".join(map(str, ic))))
                else:
                    iv, ic = [VAL[k](t) for _ in range(rec["n0"])], [VAL[k](t) for _ in range(nc)]
                    lines.append("hist pre %s | vars %s | cons 0 %s" % (k, " ".join(map(str, iv)), " ".join(map(str, ic))))
                xs.append({"dir": d, "kind": k, "inVars": iv, "inCons": ic})
            hruns.append({"id": len(hruns), "model": c["model"], "opts": [o for o in c["opts"] if not o.startswith("alg:")] + ["sol:chk:mode=0"],
                          "answer": "status 0 scripted\n" + "\n".join(lines) + "\n", "base": rec, "xs": xs, "a": c["a"]})
    hout = drv.run_cases(exe, PID + "h", hruns)
    hrecs = []
    for hr, o in zip(hruns, hout):
        got = [e for e in o["rec"] if e["e"] == "Xfer"]
        if o["hang"] or o["rc"] != 0 or len(got) != len(hr["xs"]):
            hrecs.append({"e": "Crash", "id": hr["id"], "rc": o["rc"]})
            continue
        hist = []
        for x, gx in zip(hr["xs"], got):
            ov = [ival(v) for v in gx.get("vars", [])]
            oc = gx.get("cons", {})
            ocs = [ival(v) for v in (oc.get("3", []) if x["dir"] == "pre" else oc.get("0", []))]
            hist.append(dict(x, outVars=ov, outCons=ocs, threw="throw" in gx))
        b = hr["base"]
        hrecs.append({"e": "Hist", "id": hr["id"], "n0": b["n0"], "ocons": b["ocons"], "rows": b["rows"], "vars": b["vars"], "hist": hist})
    res2 = validate_parallel("TraceValMap", "TraceValMap.cfg", hrecs, sd, "c04h")
    hverd = [v for r in res2 for v in printed_json(r, "VERDICT")]
    if len(hverd) != len(hrecs):
        raise Broken("history verdict count mismatch")
    res = validate_parallel("TraceValMap", "TraceValMap.cfg", recs, sd, "c04")
    verdicts = [v for r in res for v in printed_json(r, "VERDICT")]
    if len(verdicts) != len(recs):
        raise Broken("verdict count mismatch")
    v = Verdict(PID)
    nbad = 0
    seen_aspects = {}
    for rr in recs:
        if rr["e"] == "Case":
            for k in ("hasBasis", "hasIIS", "hasDual", "hasPrimal"):
                seen_aspects["out." + k] = seen_aspects.get("out." + k, 0) + bool(rr["out"][k])
            for k in ("hasStart", "hasPri", "hasBasis", "hasLazy", "hasDualStart"):
                seen_aspects["got." + k] = seen_aspects.get("got." + k, 0) + bool(rr["got"][k])
    for vd in verdicts:
        if not vd["wrong"]:
            continue
        nbad += 1
        c = cases[vd["id"]] if vd["id"] >= 0 else None
        a = c["a"] if c else {}
        rec = next((x for x in recs if x.get("id") == vd["id"]), {})
        for w in vd["wrong"]:
            key = "%s:%s:%s:%s:%s" % (w[0], "-".join(a.get("rows", [])), a.get("extra"), a.get("rmode"), a.get("tr"))
            v.violation(key, "rows %s extra=%s ranges=%s transfers=%s: %s at item %s (options %s)%s" %
                        (a.get("rows"), a.get("extra"), a.get("rmode"), a.get("tr"), w[0], w[1], c["opts"] if c else "", (" -- " + json.dumps(rec)[:300]) if rec.get("e") == "Crash" else ""),
                        {"case": a, "opts": c["opts"] if c else None, "record": rec})
    nhbad = 0
    for vd in hverd:
        if not vd["wrong"]:
            continue
        nhbad += 1
        hr = hruns[vd["id"]] if vd["id"] >= 0 else None
        a = hr["a"] if hr else {}
        for w in vd["wrong"]:
            hs = "+".join("%s.%s" % (x["dir"], x["kind"]) for x in hr["xs"]) if hr else ""
            v.violation("%s:%s:%s:%s:%s:step%s" % (w[0], "-".join(a.get("rows", [])), a.get("extra"), a.get("rmode"), hs, w[1]),
                        "direct transfers %s on the model rows %s extra=%s ranges=%s: %s in step %s at item %s" % (hs, a.get("rows"), a.get("extra"), a.get("rmode"), w[0], w[1], w[2]),
                        {"case": a, "history": hr["xs"] if hr else None, "answer": hr["answer"] if hr else None})
    shared = shared_stage(tier, exe, v, outdir(PID))
    rcode, nnew = v.finish()
    if rcode == 0 and not all(seen_aspects.get(k) for k in ("out.hasBasis", "out.hasIIS", "out.hasDual", "out.hasPrimal", "got.hasStart", "got.hasPri", "got.hasBasis", "got.hasLazy", "got.hasDualStart")):
        raise Broken("some transfer kind was never observed: %s" % seen_aspects)
    write_evidence(PID, tier, {
        "states": mc.distinct + g.distinct + gh.distinct + sum(r.distinct for r in res + res2), "transitions": mc.generated + g.generated + sum(r.generated for r in res),
        "design_check": {"module": "MCValCvt", "distinct_states": mc.distinct, "self_test_without_cleanup": neg.violated},
        "traces_validated_against_impl": len(recs) + len(hrecs), "direct_transfer_histories": len(hrecs), "shared_expression_stage": shared, "rejected_histories": nhbad, "samples": [cases[0]["a"], cases[-1]["a"], {k: recs[0].get(k) for k in ("ocons", "rows", "out", "got")}],
        "evaluations": len(recs), "generated_cases_total": len(gen), "rejected_runs": nbad, "transfers_observed": seen_aspects,
        "explanation": "TLC enumerates row-kind sequences x extras x range handling x transfer sets; each sampled case is run through the real driver with index-coded scripted primal/dual and seeded basis/IIS vectors (longer than the model), and input suffixes / warm start; TLC locates each original linear constraint's image among the delivered rows structurally and decides every value returned or passed on",
        "violations_new": nnew,
    }, time.time() - t0, violations=nnew,
        assumptions=["original linear rows have pairwise distinct bodies so that their images are identified structurally",
                     "constraints with nonlinear parts and logical constraints carry no demand on their dual/status (the statement covers linear rows)"])
    return rcode


def a_wants_inputs(a):
    return a["tr"] in ("inputs", "all")

if __name__ == "__main__":
    main_wrapper(PID, run)
