#!/usr/bin/env python3
"""C15 - an interrupt is never lost and never delivered with inconsistent state (Signals.tla)."""
import concurrent.futures as cf
import json, os, re, sys, time
sys.path.insert(0, os.path.join(os.path.dirname(os.path.abspath(__file__)), "..", "tools"))
from vlib import *
import targets

PID = "C15"
CORE = os.path.join(SPECS, "core")
CHUNK = 900
INVARIANTS = ("NotLost", "Paired", "CurrentReg", "Third", "AfterDtor", "Installed")


def show_sched(case):
    s = ", ".join("%s at %s" % (x["sig"], x["pt"]) for x in case["sched"]) or "no signal"
    return "%d registration(s); %s" % (case["nreg"], s)


def show_log(ev):
    out = []
    for e in ev:
        k = e["e"]
        out.append(e["id"] if k == "Point" else "raise(%s)" % e["id"] if k == "Raise" else
                   "CALLBACK(fn%d,data%d)" % (e["fn"], e["data"]) if k == "Callback" else
                   "Stop()=%s" % e["stop"] if k == "Poll" else "EXIT(%d)" % e["status"] if k == "Exit" else k)
    return " ".join(out)


EXPORT_NAMES = ["tech:writemodel", "writeprob", "writemodel", "tech:exportfile"]
ONLY_NAMES = ["tech:writemodelonly", "justwriteprob", "justwritemodel"]
DRV_MODEL = {"vars": [{"lb": 0, "ub": 10, "int": False}, {"lb": 0, "ub": 10, "int": True}],
             "cons": [{"lb": 1, "ub": None, "lin": [[0, 1], [1, 1]]}],
             "objs": [{"max": False, "lin": [[0, 1], [1, 1]]}]}
DRV_EVENTS = ("FinishOptionParsing", "SetInterrupter", "WriteProblem", "Solve", "Raise", "Raised", "Poll", "ReportResults", "BackendDtor")


def driver_stage(tier, v, d):
    """Whole driver runs (BackendApp + StdBackend::RunFromNLFile with the scripted backend): every scenario of
    DrvSignals.tla - export mode x place where 0..3 signals arrive - run for real, the recorded events validated
    as a behaviour of DrvSignals."""
    import drv
    mc = tlc("MCDrvSignals", "MCDrvSignals.cfg", cwd=CORE, workers=NPROC)
    tlc_must_pass(mc, "MCDrvSignals")
    skip = tlc("MCDrvSignals", "MCDrvSignalsSkip.cfg", cwd=CORE, workers=NPROC)
    if skip.rc != 12 or skip.violated != "InvInterruptible":
        raise Broken("MCDrvSignals: a run that reaches Solve without registration should violate InvInterruptible: rc=%s %s" % (skip.rc, skip.violated))
    scen = sorted(printed_json(mc, "CASE"), key=lambda c: json.dumps(c, sort_keys=True))
    bfirst = tlc("MCDrvSignals", "MCDrvSignalsBackendFirst.cfg", cwd=CORE, workers=NPROC)
    if bfirst.rc != 12 or bfirst.violated != "InvAfterTeardown":
        raise Broken("MCDrvSignals: destroying the backend before the handler object should violate InvAfterTeardown: rc=%s %s" % (bfirst.rc, bfirst.violated))
    if len(scen) != 155:
        raise Broken("MCDrvSignals produced %d scenarios (155 expected)" % len(scen))
    exe = targets.get("h_drv_asan" if tier == "thorough" else "h_drv")
    cases = []
    for i, sc in enumerate(scen):
        names = [] if sc["mode"] == "none" else EXPORT_NAMES if sc["mode"] == "export" else ONLY_NAMES
        reps = range(len(names)) if (names and tier == "thorough") else [i % len(names)] if names else [0]
        for r in reps:
            opts = ["%s=f%d.%s" % (names[(r + k) % len(names)], k, ("lp", "mps")[k]) for k in range(sc["nfiles"])] if names else []
            ans = "status 0 scripted\nprimal auto\npoll 2\n"
            if sc["nsig"]:
                ans += "sig %s %s %d\n" % (sc["where"], sc["sig"], sc["nsig"])
            cases.append({"id": len(cases), "model": DRV_MODEL, "answer": ans, "opts": opts, "scenario": sc,
                          "ignore_signals": sc["inherit"] == "ignored"})
    results = drv.run_cases(exe, PID, cases, timeout=60)
    lines = []
    for c, r in zip(cases, results):
        ev = [e for e in r["rec"] if e.get("e") in DRV_EVENTS]
        out = []
        for j, e in enumerate(ev):
            if e["e"] == "Raise":
                if j == len(ev) - 1:
                    out.append({"e": "Killed", "rc": r["rc"] if not r["hang"] else -999})
                continue
            out.append(e)
        if not (ev and ev[-1]["e"] == "Raise"):
            out.append({"e": "End", "rc": r["rc"] if not r["hang"] else -999, "sol": bool(r["sol_present"] and r["sol"] is not None)})
        lines.append({"e": "Run", "id": c["id"], "s": c["scenario"], "ev": out})
    tp = os.path.join(d, "drv-trace-%s.ndjson" % tier)
    with open(tp, "w") as f:
        for e in lines:
            f.write(json.dumps(e) + "\n")
    ok, res = validate_trace("TraceDrvSignals", "TraceDrvSignals.cfg", tp, cwd=CORE, xmx="3g")
    done = printed_json(res, "DONE")
    if len(done) != 1 or done[0]["n"] != len(lines):
        raise Broken("TraceDrvSignals did not consume the trace\n" + res.out[-2500:])
    delivered = sum(1 for e in lines for x in e["ev"] if x["e"] in ("Raised", "Killed"))
    cbs = sum(x.get("cb", 0) for e in lines for x in e["ev"] if x["e"] == "Raised")
    if not printed_json(res, "BAD") and (delivered < 100 or cbs < 50):
        raise Broken("driver stage: too few signals delivered / callbacks seen (%d / %d)" % (delivered, cbs))
    for b in printed_json(res, "BAD"):
        c, r = cases[b["id"]], results[b["id"]]
        sc = c["scenario"]
        why = "+".join(sorted(b["why"]))
        key = "drv:%s:%s@%s%s" % (why, sc["mode"], sc["where"] if sc["nsig"] else "-", "/ignored-at-start" if sc["inherit"] == "ignored" else "")
        evs = lines[b["line"] - 1]["ev"]
        v.violation(key, "driver run (options %s; %d x SIG%s arriving in '%s'): %s at event %d of [%s] (state before: %s); exit status %s, stderr: %s"
                    % (" ".join(c["opts"]) or "none", sc["nsig"], sc["sig"], sc["where"], why, b["at"],
                       " ".join(x["e"] + ("(cb=%d,stop=%d)" % (x["cb"], x["stop"]) if x["e"] == "Raised" else "") for x in evs), b["pc"], r["rc"], r["stderr"][-300:]),
                    {"scenario": sc, "opts": c["opts"], "answer": c["answer"], "events": evs, "rc": r["rc"]})
    return {"module": "DrvSignals", "scenarios": len(scen), "runs": len(cases), "signals_delivered": delivered, "callbacks_seen": cbs,
            "design_check_states": mc.distinct, "self_test": "Solve without registration violates InvInterruptible",
            "states": mc.distinct + skip.distinct + res.distinct, "transitions": mc.generated + skip.generated + res.generated}


def run(tier):
    t0 = time.time()
    thorough = tier == "thorough"
    # (A) design check: with a suitable order of the individual stores every schedule meets the invariants
    mc = tlc("MCSignals", "MCSignalsThorough.cfg" if thorough else "MCSignals.cfg", cwd=CORE, workers=NPROC, coverage=True)
    tlc_must_pass(mc, "MCSignals")
    acts = ("DoStore", "DoMark", "DoPlace", "DoPoll", "DoExit", "Deliver")
    idle = [a for a in acts if mc.coverage.get(a, (0, 0))[0] == 0]
    if idle:
        raise Broken("MCSignals: actions never taken (vacuous design check): %s" % idle)
    # self-test of the invariants: with the store order the code had before its repair
    # (stop_ = 0 after signal(); handler_ before data_) TLC must find a violating schedule
    before = tlc("MCSignals", "MCSignalsBeforeFix.cfg", cwd=CORE, workers=NPROC)
    if before.rc != 12 or before.violated not in INVARIANTS:
        raise Broken("MCSignals with the pre-repair store order should violate an invariant: rc=%s violated=%s\n%s" %
                     (before.rc, before.violated, before.out[-1500:]))
    log("[model] pre-repair store order: TLC finds a schedule violating %s (as it must)" % before.violated)
    # (B) TLC dumps every behaviour of the model (store order of the code) as a schedule
    gen = tlc("GenSignals", "GenSignals.cfg", cwd=CORE, workers=NPROC, xmx="12g")
    tlc_must_pass(gen, "GenSignals")
    cases = sorted(printed_json(gen, "CASE"), key=lambda c: (c["nreg"], json.dumps(c["sched"], sort_keys=True)))
    if len(cases) < 500:
        raise Broken("GenSignals produced only %d schedules" % len(cases))
    d = outdir(PID)
    sp = os.path.join(d, "schedules-%s.txt" % tier)
    with open(sp, "w") as f:
        for i, c in enumerate(cases):
            f.write("%d %d %d %s\n" % (i, c["nreg"], len(c["sched"]), " ".join("%s %s" % (x["pt"], x["sig"]) for x in c["sched"])))
    # (C) replay on the real code, one child per schedule
    exe = targets.get("h_signals")
    rawp = os.path.join(d, "raw-%s.ndjson" % tier)
    rc, so, se = run_harness(exe, [sp, rawp], timeout=1500)
    if rc == 3:
        raise Broken("h_signals: " + se[-500:])
    raws = sanitize_trace(rawp, rc, se)
    lines = []
    for r in raws:
        if r["e"] == "Run":
            c = cases[r["id"]]
            lines.append({"e": "Run", "id": r["id"], "nreg": c["nreg"], "sched": c["sched"], "ev": r["ev"],
                          "model": c["log"], "pred": sorted(c["pred"])})
        else:
            lines.append(r)
    if sum(1 for e in lines if e["e"] == "Run") != len(cases):
        raise Broken("harness replayed %d of %d schedules\n%s" % (sum(1 for e in lines if e["e"] == "Run"), len(cases), se[-1500:]))
    chunks = []
    for n, i in enumerate(range(0, len(lines), CHUNK)):
        p = os.path.join(d, "trace-%s-%03d.ndjson" % (tier, n))
        with open(p, "w") as f:
            for e in lines[i:i + CHUNK]:
                f.write(json.dumps(e) + "\n")
        chunks.append((p, lines[i:i + CHUNK]))
    def validate(ch):
        ok, res = validate_trace("TraceSignals", "TraceSignals.cfg", ch[0], cwd=CORE, xmx="3g")
        done = printed_json(res, "DONE")
        if len(done) != 1 or done[0]["n"] != len(ch[1]):
            raise Broken("TraceSignals did not consume %s\n%s" % (ch[0], res.out[-2500:]))
        return res
    with cf.ThreadPoolExecutor(max_workers=max(1, min(8, NPROC // 2))) as ex:
        results = list(ex.map(validate, chunks))
    v = Verdict(PID)
    found = {}
    nbad = 0
    for (p, part), res in zip(chunks, results):
        for b in printed_json(res, "BAD"):
            nbad += 1
            e = part[b["line"] - 1]
            for viol in b["viol"]:
                k = "%s@%s" % (viol["inv"], viol["at"] or "start")
                if e["e"] == "Run" and viol["inv"] == "Third" and any(x["pt"].startswith("ctor.") for x in e["sched"]):
                    k = "Third@ctor-window"      # the count of deliveries went wrong inside the constructor
                if e["e"] == "Run":
                    desc = "%s violated by a signal arriving at '%s' (%s): %s" % (
                        viol["inv"], viol["at"], show_sched(e), show_log(e["ev"])[:900])
                    payload = {"nreg": e["nreg"], "sched": e["sched"], "observed": show_log(e["ev"]), "violations": b["viol"]}
                else:
                    desc, payload = "harness failed: " + json.dumps(e)[:600], e
                # keep the shortest schedule as the example
                if k not in found or len(payload.get("sched", [])) < len(found[k][2].get("sched", [0] * 9)):
                    found[k] = [found.get(k, [0])[0], desc, payload]
                found[k][0] += 1
    for k in sorted(found):
        n, desc, payload = found[k]
        v.violation(k, "%s [%d schedule(s)]" % (desc, n), payload)
    drvinfo = driver_stage(tier, v, d)
    rcode, nnew = v.finish()
    if found:
        log("violation keys (%d): %s" % (len(found), " ".join(sorted(found))))
    dones = [printed_json(r, "DONE")[0] for r in results]
    agree = sum(x["agree"] for x in dones)
    predicted = sum(x["predicted"] for x in dones)
    log("[model] the real code did exactly what the model (store order as in the code) predicts in %d of %d schedules; "
        "same set of violated invariants in %d" % (agree, len(cases), predicted))
    bysig = {}
    for c in cases:
        bysig[str(len(c["sched"]))] = bysig.get(str(len(c["sched"])), 0) + 1
    runs = [e for e in lines if e["e"] == "Run"]
    write_evidence(PID, tier, {
        "states": mc.distinct + before.distinct + gen.distinct + sum(r.distinct for r in results),
        "transitions": mc.generated + before.generated + gen.generated + sum(r.generated for r in results),
        "traces_validated_against_impl": len(cases) + drvinfo["runs"],
        "samples": [{"nreg": cases[len(cases) // 2]["nreg"], "sched": cases[len(cases) // 2]["sched"]},
                    show_log(runs[len(runs) // 2]["ev"]), show_log(runs[-1]["ev"])],
        "schedules_by_number_of_signals": bysig,
        "labels": sorted({e["id"] for e in runs[0]["ev"] if e["e"] == "Point"} | {e["id"] for e in runs[-1]["ev"] if e["e"] == "Point"}),
        "exhaustive": True,
        "explanation": "TLC explores every schedule of up to 3 signals (SIGINT/SIGTERM, once installed) against every individual store of the constructor, of one or two SetHandler calls and of the destructor, "
                       "and the places in solve / report / after destruction; each schedule is replayed on the real SignalHandler in its own process via the guarded call-outs and the recorded log is judged by the monitor of Signals.tla",
        "design_check": {"module": "MCSignals", "distinct_states": mc.distinct, "depth": mc.depth,
                         "action_coverage": {a: mc.coverage[a][0] for a in acts if a in mc.coverage},
                         "store_order": "stop_=0 before signal(); SetHandler: handler_=0, data_=d, handler_=h (the code as it is)",
                         "self_test_pre_repair_order_violates": before.violated},
        "model_agreement": {"schedules": len(cases), "log_exactly_as_predicted": agree, "same_violated_invariants": predicted},
        "rejected_schedules": nbad, "violation_keys": len(found), "violations_new": nnew,
        "driver_level": drvinfo,
    }, time.time() - t0, violations=nnew,
        assumptions=["signals are raised synchronously (raise()) at the call-outs after each store; between two stores the state of the handler does not change, so these are all distinguishable arrival instants",
                     "a delivery counts once the disposition observed at the label is the handler (sigaction query), not from the name of the label",
                     "glibc signal() keeps the handler installed (BSD semantics), so the re-arming call is not observable"])
    return rcode


if __name__ == "__main__":
    main_wrapper(PID, run)
