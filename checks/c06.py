#!/usr/bin/env python3
"""C06 - inferred bounds / integrality of auxiliary variables never cut off a value (Bounds.tla)."""
import json, math, os, random, re, sys, time
sys.path.insert(0, os.path.join(os.path.dirname(os.path.abspath(__file__)), "..", "tools"))
from vlib import *
import targets

PID = "C06"
INF = 500000000
Q = 840


def fmtb(v):
    return "inf" if v >= INF else "-inf" if v <= -INF else str(v)


def case_line(i, c):
    parts = [str(i), c["type"], str(len(c["doms"]))]
    for d in c["doms"]:
        if d.get("half"):
            parts += [repr(d["lb"] / 2.0), repr(d["ub"] / 2.0), "0"]
        else:
            parts += [fmtb(d["lb"]), fmtb(d["ub"]), "1" if d["int"] else "0"]
    t = c["type"]
    prm = []
    if t in ("Pow", "NumberofConst"):
        prm = [c["k"]]
    elif t in TRANSC_PRM:
        prm = [TRANSC_PRM[t][c["k"]]]
    elif t == "PL":
        for x, y in zip(c["px"], c["py"]):
            prm += [x, y]
    elif t in ("LinFunc", "QuadFunc") or t.startswith("Cond"):
        cs = float(c["cs"])
        prm = [c["c0"] if t in ("LinFunc", "QuadFunc") else c["c2"] / 2.0] + [x / cs if cs != 1 else x for x in (c["lin"] if c["lin"] else [0] * len(c["doms"]))]
        for (cf, a, b) in c["quad"]:
            prm += [cf / cs if cs != 1 else cf, a - 1, b - 1]
    parts += [str(len(prm))] + [repr(float(p)) if isinstance(p, float) else str(p) for p in prm]
    return " ".join(parts)


# parameter menus of the functions decided on measured samples (index = GenBounds k)
TRANSC_PRM = {"ExpA": [2.0, 0.5, 10.0], "LogA": [2.0, 0.5, 10.0], "PowR": [0.5, 1.5, -0.5, 2.5]}
TRANSC = ("Exp", "ExpA", "Log", "LogA", "PowR", "Sin", "Cos", "Tan", "Asin", "Acos", "Atan", "Sinh", "Cosh", "Tanh", "Asinh", "Acosh", "Atanh")


def boundQ(v, lower):
    if isinstance(v, str):
        return INF if v == "inf" else -INF
    if abs(v) > 4e5:
        return INF if v > 0 else -INF
    return int(math.ceil((v - 1e-7) * Q)) if lower else int(math.floor((v + 1e-7) * Q))


def pair_stage(tier, exe, v, sd, d):
    """Stage 1b: two requests to ONE converter over the same variable (GenBoundPairs.tla); when the second is
    answered with the variable introduced for the first, Bounds!PairVerdict requires equal values on the box."""
    g = tlc("GenBoundPairs", "GenBoundPairs.cfg", cwd=sd, workers=NPROC)
    tlc_must_pass(g, "GenBoundPairs")
    pairs = printed_json(g, "CASE")
    if len(pairs) != 16260:
        raise Broken("GenBoundPairs produced %d pairs" % len(pairs))
    pairs.sort(key=lambda c: json.dumps(c, sort_keys=True))
    if tier != "thorough":
        rnd = random.Random(seed() + 11)
        # every (type pair, coefficient pair, right-hand-side pair) once with a seeded domain
        groups = {}
        for pc in pairs:
            groups.setdefault(json.dumps([[c_[k_] for k_ in ("type", "lin", "quad", "c0", "c2")] for c_ in (pc["c1"], pc["c2"])]), []).append(pc)
        pairs = [rnd.choice(groups[k]) for k in sorted(groups)] + rnd.sample(pairs, 1500)
    cf = os.path.join(d, "pairs-%s.txt" % tier)
    with open(cf, "w") as f:
        for i, pc in enumerate(pairs):
            f.write(case_line(2 * i, pc["c1"]) + "\n")
            f.write(case_line(2 * i + 1, pc["c2"]).replace(" " + pc["c2"]["type"] + " ", " +" + pc["c2"]["type"] + " ", 1) + "\n")
    of = os.path.join(d, "pairs-%s.ndjson" % tier)
    rc, so, se = run_harness(exe, [cf, of], timeout=900)
    res = sanitize_trace(of, rc, se)
    byid = {r["id"]: r for r in res if r.get("e") == "Res"}
    for cr in [r for r in res if r.get("e") == "Crash"]:
        v.violation("crash-pairs", "harness crashed in the pair stage: " + json.dumps(cr)[:500], cr)
    recs, stats = [], {"pairs": len(pairs), "both_vars": 0, "same": 0, "narrowed": 0}
    for i, pc in enumerate(pairs):
        r1, r2 = byid.get(2 * i), byid.get(2 * i + 1)
        if not r1 or not r2 or "rv" not in r1 or "rv" not in r2:
            continue
        stats["both_vars"] += 1
        doms = pc["c1"]["doms"]
        # the converter may narrow an argument's domain while answering: the box is the domain as generated,
        # so such pairs are not judged
        if any(len(r_[k_]) != len(doms) or any(str(r_[k_][j_]) != fmtb(doms[j_][b_]) for j_ in range(len(doms)))
               for r_ in (r1, r2) for k_, b_ in (("alb", "lb"), ("aub", "ub"))):
            stats["narrowed"] += 1
            continue
        same = r1["rv"] == r2["rv"]
        stats["same"] += same
        recs.append({"e": "Pair", "id": i, "c1": dict(pc["c1"], D=2), "c2": dict(pc["c2"], D=2), "same": same})
    vres = validate_parallel("TraceBounds", "TraceBounds.cfg", recs, sd, "c06p")
    verdicts = [x for r in vres for x in printed_json(r, "VERDICT")]
    if len(verdicts) != len(recs):
        raise Broken("pair stage: verdict count %d != %d" % (len(verdicts), len(recs)))
    tally = {}
    for vd in verdicts:
        tally[vd["v"]] = tally.get(vd["v"], 0) + 1
        if vd["v"] in ("ok", "distinct"):
            continue
        pc = pairs[vd["id"]]
        c1, c2 = pc["c1"], pc["c2"]
        desc = lambda c: "%s lin=%s quad=%s const=%s rhs=%s/2" % (c["type"], c["lin"], c["quad"], c["c0"], c["c2"])
        tag = lambda c: re.sub(r"[^\w-]+", "_", "%s_%s_%s_%s_%s" % (c["type"], c["lin"], c["quad"], c["c0"], c["c2"])).strip("_")
        v.violation("reused:%s:%s:%s" % (tag(c1), tag(c2), "-".join(c1["names"])),
                    "one converter, arguments in %s: asked for (%s) and then for (%s), it answered the second with the variable introduced for the first, but the two differ at the (D=2-scaled) argument points %s" %
                    ("-".join(c1["names"]), desc(c1), desc(c2), json.dumps(vd["at"])[:160]), {"pair": pc, "at": vd["at"]})
    stats["verdicts"] = tally
    return stats, sum(r.distinct for r in vres) + g.distinct


def run(tier):
    t0 = time.time()
    sd = os.path.join(SPECS, "flat")
    g = tlc("GenBounds", "GenBounds.cfg", cwd=sd, workers=NPROC)
    tlc_must_pass(g, "GenBounds")
    gen = printed_json(g, "CASE")
    if len(gen) < 5000:
        raise Broken("GenBounds produced %d cases" % len(gen))
    gen.sort(key=lambda c: json.dumps(c, sort_keys=True))
    rnd = random.Random(seed())
    if tier != "thorough":
        # every (type, params) with every single-domain name at least once, then a seeded sample
        keep, seen = [], set()
        order = list(range(len(gen))); rnd.shuffle(order)
        for i in order:
            c = gen[i]
            for pos, nm in enumerate(c["names"]):
                k = (c["type"], c["k"], json.dumps(c["lin"]), json.dumps(c["quad"]), c["c2"], c["cs"], pos, nm)
                if k not in seen:
                    seen.add(k); keep.append(i); break
        extra = [i for i in order if i not in set(keep)][:max(0, 4500 - len(keep))]
        gen = [gen[i] for i in sorted(set(keep + extra))]
    exe = targets.get("h_bounds")
    d = outdir(PID)
    cf = os.path.join(d, "cases-%s.txt" % tier)
    with open(cf, "w") as f:
        for i, c in enumerate(gen):
            f.write(case_line(i, c) + "\n")
    of = os.path.join(d, "results-%s.ndjson" % tier)
    rc, so, se = run_harness(exe, [cf, of], timeout=900)
    res = sanitize_trace(of, rc, se)
    byid = {r["id"]: r for r in res if r.get("e") == "Res"}
    recs = []
    crashed = [r for r in res if r.get("e") == "Crash"]
    for i, c in enumerate(gen):
        r = byid.get(i)
        if r is None:
            recs.append({"e": "Crash", "id": i})
            continue
        rr = {"kind": r["kind"], "valQ": 0, "var": 0, "lbQ": -INF, "ubQ": INF, "int": False}
        if r["kind"] == "const":
            v = r.get("val", r.get("lb"))
            rr["valQ"] = int(round(v * Q)) if not isinstance(v, str) and abs(v * Q - round(v * Q)) < 1e-6 and abs(v) < 4e5 else 399999999
        elif r["kind"] in ("var", "alias"):
            rr.update(var=r["var"], lbQ=boundQ(r["lb"], True), ubQ=boundQ(r["ub"], False), int=r["int"])
        if c["type"] in TRANSC:
            rr["samples"] = [{"lo": s_["lo"], "hi": s_["hi"], "isint": s_["isint"], "defd": s_["defd"]} for s_ in r.get("samples", [])]
        cc = dict(c, D=2 if not (c["type"] == "Pow" and abs(c["k"]) > 3) else 1)
        recs.append({"e": "Case", "id": i, "c": cc, "r": rr})
    vres = validate_parallel("TraceBounds", "TraceBounds.cfg", recs, sd, "c06")
    verdicts = [v for r in vres for v in printed_json(r, "VERDICT")]
    if len(verdicts) != len(recs):
        raise Broken("verdict count %d != %d" % (len(verdicts), len(recs)))
    v = Verdict(PID)
    tally = {}
    for vd in verdicts:
        tally[vd["v"]] = tally.get(vd["v"], 0) + 1
        if vd["v"] in ("ok", "refused", "vacuous"):
            continue
        c = gen[vd["id"]] if vd["id"] >= 0 else {}
        r = byid.get(vd["id"], {})
        key = "%s:%s:%s:k%s:lin%s:q%s:r%s:cs%s" % (vd["v"], c.get("type"), "-".join(c.get("names", [])), c.get("k"), c.get("lin"), c.get("quad"), c.get("c2"), c.get("cs"))
        v.violation(key, "%s over %s (k=%s lin=%s quad=%s rhs2=%s pl=%s/%s): converter answered %s; value outside at scaled(D=2) argument points %s" %
                    (c.get("type"), c.get("names"), c.get("k"), c.get("lin"), c.get("quad"), c.get("c2"), c.get("px"), c.get("py"), json.dumps(r), json.dumps(vd["at"])[:200]),
                    {"case": c, "answer": r, "at": vd["at"]})
    for cr in crashed:
        v.violation("crash", "harness crashed: " + json.dumps(cr)[:500], cr)
    pstats, pstates = pair_stage(tier, exe, v, sd, d)
    # stage 2: the bounds auxiliary variables finally have in the DELIVERED model (after propagation down from
    # root constraints) still contain the expression's value at every feasible point (TraceBoundsDelivered.tla)
    import cvtcases, drv
    dexe = targets.get("h_drv_asan" if tier == "thorough" else "h_drv")
    gen2, g2 = cvtcases.generate()
    cfgs, acc = cvtcases.configs(dexe)
    native = [c_ for c_ in cfgs if c_[0] in ("native", "native-nocones")] + [("native-nopre", ["cvt:pre:all=0"]), ("native-noeq", ["cvt:pre:eqresult=0", "cvt:pre:eqbinary=0"])]
    # propagation down from root constraints is what this stage is about: every (operator, use) stratum of the
    # logical models and of the numeric models used inside logical constraints, with a seeded shape / domain
    # pattern (thorough: five per stratum and a sample of everything else)
    rnd2 = random.Random(seed() + 3)
    strata = {}
    for g_ in gen2:
        if g_["kind"] in ("log", "eqpair") or (g_["kind"] == "num" and g_["use"] in ("lcon_lt", "lcon_ne", "lcon_noteq", "inor", "shared", "lcon_lth", "iff_gth")):
            strata.setdefault((g_["kind"], g_["op"], g_["use"]), []).append(g_)
    dcases = []
    for key_ in sorted(strata):
        for g_ in rnd2.sample(strata[key_], min(len(strata[key_]), 6 if tier == "thorough" else 3 if key_[0] in ("log", "eqpair") else 1)):
            name_, opts_ = native[0] if rnd2.random() < 0.6 else native[rnd2.randrange(len(native))]
            dcases.append({"id": len(dcases), "gen": g_, "cfgname": name_, "opts": list(opts_)})
    if tier == "thorough":
        rest = [g_ for g_ in gen2 if g_["kind"] in ("num", "nest", "dvar")]
        for c_ in cvtcases.sample(rest, (native, acc), 1200, seed() + 4):
            j = len(dcases)
            dcases.append({"id": j, "gen": c_["gen"], "cfgname": native[j % len(native)][0], "opts": list(native[j % len(native)][1])})
    drecs, dstats = cvtcases.run_and_record(dexe, PID + "d", dcases)
    din = [dict(r_, e="Deliv") for r_ in drecs if r_.get("e") == "Case" and r_["outcome"] == "converted" and not r_["ng"] and not r_["toobig"]]
    dres = validate_parallel("TraceBoundsDelivered", "TraceBoundsDelivered.cfg", din, sd, "c06d")
    dverd = [x for r_ in dres for x in printed_json(r_, "VERDICT")]
    if len(dverd) != len(din):
        raise Broken("stage 2: verdict count %d != %d" % (len(dverd), len(din)))
    dtally = {}
    dby = {c_["id"]: c_ for c_ in dcases}
    for vd in dverd:
        dtally[vd["v"]] = dtally.get(vd["v"], 0) + 1
        if vd["v"] in ("ok", "undetermined"):
            continue
        c_ = dby.get(vd["id"], {})
        g_ = c_.get("gen", {})
        key = "%s:%s:%s:%s:%s:%s:k%s:%s" % (vd["v"], g_.get("kind"), g_.get("op"), g_.get("sh"), "-".join(g_.get("pat", [])), g_.get("use"), g_.get("k"), c_.get("cfgname"))
        v.violation(key, "delivered model of %s/%s shape=%s domains=%s use=%s k=%s under %s: at the feasible point %s (scaled by D) the auxiliary variable(s) %s stand for a value outside their final bounds / type" %
                    (g_.get("kind"), g_.get("op"), g_.get("sh"), g_.get("pat"), g_.get("use"), g_.get("k"), c_.get("cfgname"),
                     vd["at"][0] if vd["at"] else None, vd["at"][1] if vd["at"] else None),
                    {"gen": g_, "config": c_.get("cfgname"), "opts": c_.get("opts"), "at": vd["at"]})
    rcode, nnew = v.finish()
    if rcode == 0 and dtally.get("ok", 0) < len(din) // 3:
        raise Broken("stage 2 vacuous: %s" % dtally)
    if rcode == 0 and (pstats["same"] < 20 or pstats["verdicts"].get("distinct", 0) < 100):
        raise Broken("pair stage vacuous: %s" % pstats)
    write_evidence(PID, tier, {
        "states": g.distinct + sum(r.distinct for r in vres) + pstates, "transitions": g.generated + sum(r.generated for r in vres),
        "traces_validated_against_impl": len(recs),
        "samples": [recs[0], recs[len(recs) // 2], recs[-1]],
        "evaluations": len(recs) + len(din), "verdicts": tally, "delivered_models": len(din), "delivered_verdicts": dtally, "reuse_pairs": pstats, "generated_cases_total": len(printed_json(g, "CASE")),
        "answers_by_kind": {k: sum(1 for r in byid.values() if r["kind"] == k) for k in ("var", "const", "alias", "throw")},
        "exhaustive": tier == "thorough",
        "explanation": "TLC generates (functional type x argument-domain patterns incl. half-infinite/infinite/fixed/negative/zero-crossing/int-cont mixes x parameters); the real converter's AssignResult2Args answers are validated by TLC: every value of the function on the argument grid (half-integers for continuous arguments) lies within the assigned bounds, integrality only if integer-valued, constants/aliases only if equal; pairs of comparisons of one variable (GenBoundPairs.tla: equal after normalisation, equal on integers only, close but different) asked of one converter one after the other: the second is answered with the first's variable only if the two agree on the whole domain; stage 2: for generated models converted natively through the real driver, the canonical value of every auxiliary variable at every feasible grid point lies within the bounds / type the variable has in the delivered model (propagation from root constraints may only remove values no feasible point attains)",
        "violations_new": nnew,
    }, time.time() - t0, violations=nnew,
        assumptions=["exp/log/trig/fractional powers: decided on margins measured with libm at sample points of the argument domain (ends, eighths, a fixed menu incl. multiples of pi/2), unit 1e-6 * max(1,|f|); a sampled observation, not a proof over the reals",
                     "bounds compared with tolerance 1e-7; infinite sides sampled at {+-1,+-2,+-3,+-7}"])
    return rcode

if __name__ == "__main__":
    main_wrapper(PID, run)
