#!/usr/bin/env python3
"""C03 - NL writer output is read back as the same model, text = binary
(specs/nl/NLModel.tla, GenNL.tla, NLProtocol.tla, TraceNLRoundTrip.tla; harness/h_nlrt.cc)."""
import concurrent.futures as cf
import itertools, json, os, random, re, shutil, sys, time
sys.path.insert(0, os.path.join(os.path.dirname(os.path.abspath(__file__)), "..", "tools"))
from vlib import *
import targets

PID = "C03"
NL = os.path.join(SPECS, "nl")
NATOMS = 2200
# writer configurations: (comments, bounds first, column-size mode, reader flags); each is
# written in text AND binary by the harness
ALL_CFGS = [(c, b, k, (i % 2)) for i, (c, b, k) in enumerate(itertools.product((0, 1), (1, 0), (1, 2, 0)))]
FMT_CFGS = [(0, 1, 1, 0), (1, 1, 1, 1)]


def atoms_info(exe):
    rc, so, se = run_harness(exe, ["atoms", str(seed()), str(NATOMS)], timeout=60)
    if rc != 0:
        raise Broken("h_nlrt atoms failed: " + se[-500:])
    return json.loads(so)


def generate(tier, nfixed, nsim, natoms=NATOMS):
    """(A)+(B): TLC enumerates the exhaustive layer (checking that every case is a
    well-formed model and that the layer covers every operator / kind) and draws the
    simulated layer."""
    env = {"NATOMS": natoms, "NFIXED": nfixed, "NSIM": nsim}
    with cf.ThreadPoolExecutor(max_workers=2) as ex:
        f1 = ex.submit(tlc, "GenNL", "GenNL.cfg", NL, dict(env, GENMODE="exh"), 1)
        f2 = ex.submit(tlc, "GenNL", "GenNLSim.cfg", NL, dict(env, GENMODE="sim"), 1, 1, nsim + 1, seed())
        exh, sim = f1.result(), f2.result()
    tlc_must_pass(exh, "GenNL (exhaustive layer, design check AllWF/Coverage)")
    tlc_must_pass(sim, "GenNL (simulated layer)")
    cases = printed_json(exh, "CASE")
    simc = printed_json(sim, "CASE")
    if len(cases) < 150 or len(simc) != nsim:
        raise Broken("GenNL produced %d + %d cases" % (len(cases), len(simc)))
    for c in simc:
        c["id"] += 100000
    # names are byte strings: in every third model with functions or suffixes the last function name and the first
    # suffix name get bytes >= 0x80 (a name in Latin-1 / UTF-8, as AMPL writes it for non-English models)
    for c in cases + simc:
        if c["id"] % 3 == 0:
            m = c["m"]
            if m.get("funcs"):
                m["funcs"][-1]["name"] += "_co\u00fbt\u00c3\u00a9"
            if m.get("sufs"):
                m["sufs"][0]["name"] += "\u00e9"
    return cases + simc, exh, sim


def family(tag):
    p = tag.split(":")
    return ":".join(p[:2]) if p[0] in ("op", "bnd", "cls", "suf", "lin", "init", "names", "opts", "dv", "func", "call", "pl", "leaf") else p[0]


def crash_key(e):
    s = e.get("stderr", "") or e.get("what", "")
    m = re.search(r"([\w.-]+\.(?:cc|h|hpp)):(\d+):\d+: runtime error: ([^\n]*)", s)
    if m:
        what = re.sub(r"[^A-Za-z]+", "_", re.sub(r"-?\d+", "", m.group(3))).strip("_")[:32]
        return "ubsan:%s:%s:%s" % (m.group(1), m.group(2), what)
    m = re.search(r"ERROR: AddressSanitizer: ([\w-]+)", s)
    if m:
        fr = re.search(r"#\d+ 0x[0-9a-f]+ in (\S+) [^\n]*?([\w.-]+\.(?:cc|h|hpp)):(\d+)", s)
        return "asan:%s:%s" % (m.group(1), (fr.group(2) + ":" + fr.group(3)) if fr else "?")
    return "%s:%s" % (e.get("e"), e.get("what", ""))


def run(tier):
    t0 = time.time()
    exe = targets.get("h_nlrt")
    info = atoms_info(exe)
    nsim = 150 if tier != "thorough" else 3000
    cases, exh, sim = generate(tier, info["nfixed"], nsim)
    rnd = random.Random(seed())
    for c in cases:
        kind = c["cfgs"]
        if kind == "all":
            c["cfgs"] = ALL_CFGS
        elif kind == "fmt":
            c["cfgs"] = FMT_CFGS
        else:
            c["cfgs"] = ALL_CFGS if tier == "thorough" else rnd.sample(ALL_CFGS, 3)
    bycase = {c["id"]: c for c in cases}

    # (C) run the real writer + reader, in parallel chunks
    d = outdir(PID)
    work = os.path.join(BUILD, "run", PID)
    shutil.rmtree(work, ignore_errors=True)
    nchunks = max(1, min(NPROC, 8))
    chunks = [cases[i::nchunks] for i in range(nchunks)]

    def run_chunk(i):
        w = os.path.join(work, str(i))
        os.makedirs(w, exist_ok=True)
        cin = os.path.join(w, "cases.ndjson")
        with open(cin, "w") as f:
            for c in chunks[i]:
                f.write(json.dumps({k: c[k] for k in ("id", "cfgs", "m", "hdr", "colsz")}) + "\n")
        cout = os.path.join(w, "exec.ndjson")
        rc, so, se = run_harness(exe, ["run", cin, cout, w, str(seed()), str(NATOMS)], timeout=1500)
        lines = sanitize_trace(cout, rc, se)
        trace = os.path.join(d, "trace-%s-%d.ndjson" % (tier, i))
        last = None
        nexec = 0
        with open(trace, "w") as f:
            for e in lines:
                cid = e.get("case")
                if cid is None and e["e"] == "Crash":
                    m = re.match(r"case (\d+) ", e.get("ctx", ""))
                    cid = int(m.group(1)) if m else None
                    e["case"] = cid
                if cid is not None and cid != last and cid in bycase:
                    c = bycase[cid]
                    f.write(json.dumps({"e": "Case", "id": c["id"], "tag": c["tag"], "m": c["m"]}) + "\n")
                    last = cid
                nexec += e["e"] == "Exec"
                f.write(json.dumps(e) + "\n")
        ok, res = validate_trace("TraceNLRoundTrip", "TraceNLRoundTrip.cfg", trace, cwd=NL, xmx="4g", timeout=1500)
        done = printed_json(res, "DONE")
        if len(done) != 1:
            raise Broken("TraceNLRoundTrip did not reach the end of %s\n%s" % (trace, res.out[-2500:]))
        return trace, lines, nexec, res

    with cf.ThreadPoolExecutor(max_workers=nchunks) as ex:
        results = list(ex.map(run_chunk, range(nchunks)))

    v = Verdict(PID)
    found = {}          # key -> [description, payload, count]: one VIOLATION per distinct key

    def report(key, desc, payload):
        if key in found:
            found[key][2] += 1
        else:
            found[key] = [desc, payload, 1]
    nexec = states = trans = nbad = 0
    seen_exec = set()
    callbacks = {}
    for trace, lines, ne, res in results:
        nexec += ne
        states += res.distinct
        trans += res.generated
        tl = [json.loads(x) for x in open(trace)]
        for e in tl:
            if e["e"] == "Exec":
                seen_exec.add((e["case"], e["q"], e["fmt"]))
                for ev in e["evs"]:
                    callbacks[ev["e"]] = callbacks.get(ev["e"], 0) + 1
        for b in printed_json(res, "BAD"):
            nbad += 1
            w = b["what"]
            fam = family(b["tag"])
            line = tl[b["line"] - 1]
            if w["k"] == "event":
                report("crash:%s@%s" % (crash_key(line), fam),
                            "case %s (%s): harness/writer/reader died: %s" % (b["id"], b["tag"], json.dumps(line)[:700]),
                            {"case": bycase.get(b["id"]), "record": line})
                continue
            if w["k"] != "exec":
                report("%s:%s@%s" % (w["k"], w.get("why", ""), fam), "rejected: " + json.dumps(w)[:300], w)
                continue
            cfgd = "fmt=%s comments=%s boundsfirst=%s colsizes=%s readflags=%s" % (
                "binary" if w["fmt"] else "text", w["comments"], w["bf"], w["cs"], w["rf"])
            for p in w["problems"]:
                k = p["k"]
                if k == "items":
                    subs = sorted(p["diffs"]) or ["rebuild"]
                elif k == "header":
                    subs = sorted(p["fields"])
                elif k == "protocol":
                    subs = ["%s:%s" % (p["ev"], re.sub(r"\W+", "_", p["why"]))]
                elif k == "write":
                    subs = ["code%s" % p["code"]]
                elif k == "names":
                    subs = sorted(p["which"])
                else:
                    subs = [""]
                for s_ in subs:
                    key = "%s:%s@%s" % (k, s_, fam)
                    report(key, "model %s (case %s), %s: %s %s -- written by mp::WriteNLFile, read back by mp::ReadNLFile" %
                                (b["tag"], b["id"], cfgd, k, s_),
                                {"case": bycase.get(b["id"]), "config": cfgd, "problem": p,
                                 "events": line.get("evs", [])[:400]})
    # every planned execution must have been observed (or its case reported as crashed)
    crashed = {e.get("case") for _, lines, _, _ in results for e in lines if e["e"] in ("Crash", "Hang")}
    missing = [(c["id"], q, f) for c in cases if c["id"] not in crashed for q in range(len(c["cfgs"])) for f in (0, 1)
               if (c["id"], q, f) not in seen_exec]
    if missing:
        raise Broken("%d planned executions missing from the trace, e.g. %s" % (len(missing), missing[:3]))
    # vacuity: the run must have exercised every callback of the protocol (all but Throw)
    spec_events = set(re.findall(r'e\.e = "(\w+)" ->', open(os.path.join(NL, "NLProtocol.tla")).read())) - {"Throw"}
    unseen = sorted(spec_events - set(callbacks))
    if unseen:
        raise Broken("callbacks never observed in this run: %s" % unseen)
    for key in sorted(found):
        desc, payload, cnt = found[key]
        v.violation(key, "[%s] %s (%d execution(s))" % (key, desc, cnt), payload)
    rcode, nnew = v.finish()
    fams = {}
    for c in cases:
        fams[c["tag"].split(":")[0]] = fams.get(c["tag"].split(":")[0], 0) + 1
    sample_case = cases[0]
    sample_exec = next(json.loads(x) for x in open(results[0][0]) if '"e": "Exec"' in x)
    write_evidence(PID, tier, {
        "states": exh.distinct + sim.distinct + states, "transitions": exh.generated + sim.generated + trans,
        "traces_validated_against_impl": nexec,
        "samples": [{"tag": sample_case["tag"], "model": sample_case["m"]},
                    {k: sample_exec[k] for k in ("case", "fmt", "comments", "bf", "cs")},
                    sample_exec["evs"][:12]],
        "models": len(cases), "models_by_family": fams, "atoms": NATOMS, "atoms_fixed": info["nfixed"],
        "writer_configurations": len(ALL_CFGS) * 2, "callbacks_observed": callbacks,
        "explanation": "TLC-generated abstract NL models (exhaustive small layer: every operator at every arity class with plain "
                       "and nested arguments, bound kinds, variable classes, section sizes 0..3, suffix kinds, names, options, "
                       "defined-variable groups, every atom of the number table in every numeric position; plus %d simulated "
                       "models) written by the real NLW2 writer in text and binary under all writer options and read back by "
                       "the real reader; every callback stream validated by TLC against NLProtocol, rebuilt and compared with "
                       "the model item by item, text stream = binary stream" % nsim,
        "design_check": {"module": "GenNL (AllWF, Coverage)", "distinct_states": exh.distinct},
        "rejected_records": nbad, "violations_new": nnew,
    }, time.time() - t0, violations=nnew,
        assumptions=["numbers: the table of %d doubles (hand-picked hard cases + seeded) stands for 'every double'" % NATOMS,
                     "models have at least one variable (the writer documents that it writes no file otherwise)",
                     "NaN is not a model number"])
    return rcode


if __name__ == "__main__":
    main_wrapper(PID, run)
