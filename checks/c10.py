#!/usr/bin/env python3
"""C10 - solve-result codes are classified and reported as documented (SolveCodes.tla)."""
import json, os, re, sys, time
sys.path.insert(0, os.path.join(os.path.dirname(os.path.abspath(__file__)), "..", "tools"))
from vlib import *
import targets, drv

PID = "C10"
MODEL = {"vars": [{"lb": 0, "ub": 10}, {"lb": 0, "ub": 10}],
         "cons": [{"lb": 1, "ub": None, "lin": [[0, 1], [1, 1]]}],
         "objs": [{"max": False, "lin": [[0, 1], [1, 1]]}]}
# two objectives, solved with obj:multi=1 by a backend with native multi-objective support:
# the message then has the "Individual objective values" form
MODEL2 = dict(MODEL, objs=MODEL["objs"] + [{"max": True, "lin": [[0, 2], [1, -1]]}])


def run(tier):
    t0 = time.time()
    core = os.path.join(SPECS, "core")
    mc = tlc("MCSolveCodes", "MCSolveCodes.cfg", cwd=core, workers=NPROC)
    tlc_must_pass(mc, "MCSolveCodes")
    exe = targets.get("h_drv")
    # complete enumeration: every code x answer shape (quick: all 8 shapes at range
    # boundaries and a seeded sample, 2 shapes elsewhere; thorough: all 8 everywhere)
    codes = list(range(-200, 1000))
    edge = set()
    for b in (0, 100, 150, 160, 200, 300, 350, 400, 450, 470, 500, 1000):
        edge.update((b - 2, b - 1, b, b + 1))
    import random
    rnd = random.Random(seed())
    cases = []
    for c in codes:
        shapes = [(p, d, o) for p in (0, 1) for d in (0, 1) for o in (0, 1)]
        if tier != "thorough" and c not in edge and rnd.random() > 0.05:
            shapes = [(1, 1, 1), rnd.choice(shapes[:-1])]
        for (p, d, o) in shapes:
            ans = "status %d scripted status %d\n" % (c, c)
            if p: ans += "primal 1 2\n"
            if d: ans += "dual 3 5\n"
            if o: ans += "objvals 42.5\n"
            cases.append({"id": len(cases), "model": MODEL, "answer": ans,
                          "opts": ["alg:iisfind=1", "alg:rays=3"],
                          "abs": {"code": c, "hasPrimal": bool(p), "hasDual": bool(d), "hasObj": bool(o), "multi": False}})
        # the same code with two objectives in multi-objective mode
        mshapes = [(1, 1, 1)] if tier != "thorough" and c not in edge else [(1, 1, 1), (1, 0, 0), (0, 0, 1), (0, 1, 0)]
        for (p, d, o) in mshapes:
            ans = "status %d scripted status %d\n" % (c, c)
            if p: ans += "primal 1 2\n"
            if d: ans += "dual 3 5\n"
            if o: ans += "objvals 42.5 17.25\n"
            cases.append({"id": len(cases), "model": MODEL2, "answer": ans,
                          "opts": ["alg:iisfind=1", "alg:rays=3", "obj:multi=1"],
                          "abs": {"code": c, "hasPrimal": bool(p), "hasDual": bool(d), "hasObj": bool(o), "multi": True}})
    # the same codes delivered by exception (Abort(code, msg)); codes <= 1 are indistinguishable from an
    # exception without a code and are reported as a generic failure, so they are not part of this family
    for c in codes:
        if c >= 2 and (tier == "thorough" or c in edge or rnd.random() < 0.08):
            cases.append({"id": len(cases), "model": MODEL, "answer": "abort %d\n" % c, "opts": [],
                          "abs": {"code": c, "hasPrimal": False, "hasDual": False, "hasObj": False, "multi": False, "abort": True}})
    # the further solutions of a run (sol:stub=<prefix>, a MULTISOL backend reporting 2 of them before the final
    # result): every <prefix>N.sol carries the code the backend reported, like the final file
    for c in codes:
        if c >= 0 and (tier == "thorough" or c in edge or rnd.random() < 0.08):
            ans = "status %d scripted status %d\nprimal 1 2\nobjvals 42.5\ninterm 2\n" % (c, c)
            cases.append({"id": len(cases), "model": MODEL, "answer": ans, "opts": ["alg:iisfind=1", "alg:rays=3", "sol:stub=alt"], "collect_sols": "alt",
                          "abs": {"code": c, "hasPrimal": True, "hasDual": False, "hasObj": True, "multi": False, "alt": 2}})
    for c_ in cases:
        c_["abs"].setdefault("abort", False)
        c_["abs"].setdefault("alt", 0)
    results = drv.run_cases(exe, PID, cases)
    d = outdir(PID)
    trace = os.path.join(d, "trace-%s.ndjson" % tier)
    with open(trace, "w") as f:
        f.write(json.dumps({"e": "Meta", "tier": tier}) + "\n")
        # -! table
        rc, so, se = run_harness(exe, ["-!"], timeout=60)
        rows = []
        for line in so.splitlines():
            m = re.match(r"^\s*(\d+)\s*-\s*(\d+)\s+(.*)$", line)
            if m: rows.append({"lo": int(m.group(1)), "hi": int(m.group(2)), "text": m.group(3).strip()})
            else:
                m = re.match(r"^\s*(\d+)\s+(.*)$", line)
                if m: rows.append({"lo": int(m.group(1)), "hi": int(m.group(1)), "text": m.group(2).strip()})
        f.write(json.dumps({"e": "Table", "rows": rows}) + "\n")
        for case, r in zip(cases, results):
            a = case["abs"]
            f.write(json.dumps(dict(e="Case", id=case["id"], **a)) + "\n")
            for ev in r["rec"]:
                if ev["e"] in ("Classify", "ComputeIIS", "Ray", "DRay"):
                    f.write(json.dumps(ev) + "\n")
            s = r["sol"]
            if s:
                shown = re.search(r"; (feasrelax )?objective 42\.5|_sobj\[\d+\] = (42\.5|17\.25)", s["msg"]) is not None
                f.write(json.dumps({"e": "Sol", "present": True, "code": s["code"] if s["code"] is not None else -99999,
                                    "objno": s["objno"] if s["objno"] is not None else -99999, "objShown": shown,
                                    "nprimal": s["nprimal"], "ndual": s["ndual"], "nvars": s["nvars"], "ncons": s["ncons"]}) + "\n")
            else:
                f.write(json.dumps({"e": "Sol", "present": False, "err": r["sol_error"] or "absent"}) + "\n")
            if a["alt"]:
                alts = r.get("alt", [])
                f.write(json.dumps({"e": "Alt", "n": len(alts), "unreadable": sum(1 for x in alts if x["sol"] is None),
                                    "codes": [x["sol"]["code"] if x["sol"] and x["sol"]["code"] is not None else -99999 for x in alts]}) + "\n")
            f.write(json.dumps({"e": "Exit", "rc": r["rc"]}) + "\n")
    ok, res = validate_trace("TraceSolveCodes", "TraceSolveCodes.cfg", trace, cwd=core)
    if len(printed_json(res, "DONE")) != 1:
        raise Broken("TraceSolveCodes did not consume the trace\n" + res.out[-2500:])
    v = Verdict(PID)
    for b in printed_json(res, "BAD"):
        w = b["what"]
        if w["k"] in ("classify", "sol", "exit", "alt"):
            for n in w["wrong"]:
                v.violation("%s:%s:%d" % (w["k"], n, b["code"]),
                            "code %d: %s/%s disagrees with the documented classification (case %d, trace line %d)" % (b["code"], w["k"], n, b["id"], b["line"]),
                            {"case": cases[b["id"]]["abs"] if b["id"] >= 0 else None, "what": w})
        else:
            v.violation("%s:%s" % (w["k"], json.dumps(w, sort_keys=True)[:100]), "rejected: " + json.dumps(w), w)
    rcode, nnew = v.finish()
    write_evidence(PID, tier, {
        "states": mc.distinct + res.distinct, "transitions": mc.generated + res.generated,
        "traces_validated_against_impl": len(cases),
        "samples": [cases[0]["abs"], cases[len(cases) // 2]["abs"], open(trace).read().splitlines()[2:8]],
        "evaluations": len(cases), "codes": len(codes), "exhaustive": True,
        "explanation": "every status code -200..999 run through a real driver (scripted backend), answer shapes primal/dual/objective present or absent, single objective and two objectives under obj:multi=1 (native multi-objective backend); codes 2..999 also delivered by exception (StdBackend::Abort); each run validated by TLC as a behaviour of SolveCodes.tla; -! table compared with the documented ranges",
        "design_check": {"module": "MCSolveCodes", "distinct_states": mc.distinct},
        "rejected": len(printed_json(res, "BAD")), "violations_new": nnew,
    }, time.time() - t0, violations=nnew,
        assumptions=["the scripted backend reports the status through StdBackend::SetStatus like a real solver driver",
                     "objective display detected by the text '; objective 42.5' or '_sobj[i] = 42.5 / 17.25' in the solve message (a backend that supplies no objective values gets zeros from the value postsolver; those are not the backend's objective)"])
    return rcode

if __name__ == "__main__":
    main_wrapper(PID, run)
