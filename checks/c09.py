#!/usr/bin/env python3
"""C09 - a driver run always ends in a well-formed result or a diagnosed failure (Driver.tla)."""
import json, os, random, sys, time
sys.path.insert(0, os.path.join(os.path.dirname(os.path.abspath(__file__)), "..", "tools"))
from vlib import *
import targets, drv, nlgen, cvtcases

PID = "C09"
V = lambda i: ["v", i]
N = lambda c: ["n", c]
O = lambda op, *a: ["o", op] + list(a)


def base_models():
    lp = {"vars": [{"lb": 0, "ub": 10}, {"lb": 0, "ub": 10, "int": True}, {"lb": -5, "ub": 5}],
          "cons": [{"lb": 1, "ub": None, "lin": [[0, 1], [1, 1]]}, {"lb": None, "ub": 8, "lin": [[1, 2], [2, 1]]}],
          "objs": [{"max": False, "lin": [[0, 1], [1, 1], [2, 1]]}]}
    logic = {"vars": [{"lb": 0, "ub": 4, "int": True}, {"lb": -3, "ub": 3}, {"lb": 0, "ub": 1, "int": True}],
             "cons": [{"lb": None, "ub": 3, "lin": [[0, 1]], "expr": O(15, V(1))}],
             "lcons": [O(20, O(28, V(0), N(2)), O(24, V(2), N(1))), O(72, O(24, V(2), N(1)), O(23, V(1), N(0)), N(1))],
             "objs": [{"max": True, "lin": [[0, 1]], "expr": O(11, V(1), V(0))}]}
    logic["objs"][0]["expr"] = ["o", 11, V(1), V(0)]
    infeas = dict(logic, lcons=logic["lcons"] + [O(22, N(1), N(0))])
    unsup = dict(logic, lcons=logic["lcons"] + [["o", 75, V(0), V(2), N(1)]])
    needb = {"vars": [{"lb": None, "ub": None}, {"lb": None, "ub": None}, {"lb": 0, "ub": 1, "int": True}],
             "cons": [{"lb": 1, "ub": None, "lin": [[0, 1], [1, 1]]}],
             "lcons": [O(20, O(28, V(0), N(2)), O(23, V(1), N(-1)))], "objs": [{"max": False, "lin": [[0, 1], [1, 1]]}]}
    nested = dict(logic, lcons=logic["lcons"] + [O(21, O(24, V(2), N(1)), O(34, O(24, V(2), N(1))))])
    noobj = dict(lp, objs=[])
    obj2 = dict(lp, objs=lp["objs"] + [{"max": True, "lin": [[0, 2], [1, -1]]}])
    quad = dict(lp, cons=[{"lb": None, "ub": 9, "lin": [], "expr": O(0, O(2, V(0), V(2)), O(2, V(1), V(1)))}])
    powce = dict(lp, cons=lp["cons"] + [{"lb": None, "ub": 40, "lin": [], "expr": ["o", 5, O(0, N(1), N(1)), V(1)]}])
    powvar = dict(lp, cons=lp["cons"] + [{"lb": None, "ub": 40, "lin": [], "expr": ["o", 76, V(0), V(1)]}])
    return {"ok_quad": quad, "ok_powce": powce, "bad_powvar": powvar, "ok_lp": lp, "ok_logic": logic, "infeas": infeas, "unsupported": unsup, "needbounds": needb,
            "infeas_nested": nested, "ok_noobj": noobj, "ok_obj2": obj2}


def nl_text(m, tmp):
    stub = os.path.join(tmp, "gen")
    nlgen.write_nl(m, stub)
    return open(stub + ".nl").read()


def concretise(s, models, texts, bigm_opts, rnd):
    """abstract scenario -> driver case"""
    c = {"args": {"ampl": ["-AMPL"], "wantsol": ["wantsol=1"], "plain": [], "wantsol7": ["wantsol=7"], "print": ["wantsol=6"]}[s["mode"]], "opts": [], "files": {}}
    mk = s["model"]
    src = {"trunc_header": "ok_lp", "trunc_body": "ok_logic", "bad_opcode": "ok_logic", "bad_index": "ok_logic",
           "empty": "ok_lp", "missing": "ok_lp"}.get(mk, mk)
    m = models[src]
    text = texts[src]
    if mk == "trunc_header":
        text = text[:rnd.choice([0 + 7, 40, 60, 120])]
    elif mk == "trunc_body":
        cut = text.index("\nb\n") + rnd.choice([1, 3, 9])
        text = text[:cut]
    elif mk == "bad_opcode":
        text = text.replace("o15", "o" + rnd.choice(["999", "83", "-1", "x15"]), 1)
    elif mk == "bad_index":
        text = text.replace("v1\n", rnd.choice(["v7\n", "v-1\n", "v3\n"]), 1)
    elif mk == "empty":
        text = ""
    c["nl_bytes"] = text.encode()
    if mk == "missing":
        c["no_nl"] = True
    if mk == "needbounds":
        c["opts"] += bigm_opts
    if mk == "ok_obj2":
        c["opts"] += ["objno=2"]
    c["opts"] += {"none": [], "valid": ["tech:idummy=3"], "unknown": [rnd.choice(["foo=1", "tech:nosuchopt=2", "acc:nothing=0"])],
                  "illtyped": [rnd.choice(["tech:idummy=abc", "objno=x1", "tech:ddummy=1e"])], "objno_range": ["objno=7"],
                  "solcount": ["sol:count=1"], "optfile_self": ["tech:optionfile=self.opt"], "optfile_missing": ["tech:optionfile=nosuchfile.opt"],
                  "solstub": ["sol:stub=alt", "sol:count=1"], "warn2": []}[s["opt"]]
    if s["opt"] == "optfile_self":
        c["extra_files"] = {"self.opt": "tech:idummy=3\ntech:optionfile=self.opt\n"}
    nv, nc, no = len(m["vars"]), len(m.get("cons", [])), len(m.get("objs", []))
    if s["names"] != "absent":
        c["opts"].append("cvt:names=3")
        eol = "\r\n" if s["names"] == "crlf" else "\n"
        cols = ["x%d" % i for i in range(nv)]
        rows = ["c%d" % i for i in range(nc)] + ["o%d" % i for i in range(no)]
        if s["names"] == "short":
            cols, rows = cols[:1], rows[:1]
        if s["names"] == "emptyfirst":
            cols, rows = [""] + cols, [""] + rows
        c["files"] = {".col": "".join(n + eol for n in cols), ".row": "".join(n + eol for n in rows)}
    if s["out"] == "blocked":
        c["mk_sol_dir"] = True
    if s["out"] == "full":
        c["sol_symlink"] = "/dev/full"
    if s["stub"] == "dotted":
        c["stub_name"] = "run.2/m.v2"
    c["dims"] = (nv, nc)
    return c


def run(tier):
    t0 = time.time()
    sd = os.path.join(SPECS, "driver")
    mc = tlc("MCDriver", "MCDriver.cfg", cwd=sd, workers=NPROC)
    tlc_must_pass(mc, "MCDriver")
    scen = printed_json(mc, "CASE")
    if len(scen) != 6614:
        raise Broken("expected 6614 scenarios, got %d" % len(scen))
    scen.sort(key=lambda s: json.dumps(s, sort_keys=True))
    exe = targets.get("h_drv")
    cfgs, acc = cvtcases.configs(exe)
    bigm = dict(cfgs)["mip-bigm"]
    rnd = random.Random(seed())
    models = base_models()
    tmp = os.path.join(BUILD, "run", PID + "-gen"); os.makedirs(tmp, exist_ok=True)
    texts = {k: nl_text(m, tmp) for k, m in models.items()}
    reps = 3 if tier == "thorough" else 1
    cases = []
    for s in scen:
        for _ in range(reps):
            c = concretise(s, models, texts, bigm, rnd)
            c.update(id=len(cases), answer="status 0 ok\nprimal auto\ndual auto\nobjvals 1\n" + ("interm 3\n" if s["opt"] == "solstub" else "") + ("warn 2\n" if s["opt"] == "warn2" else ""), s=s,
                     collect_sols="alt")
            cases.append(c)
    for c in cases:
        if c.get("no_nl"):
            c.pop("nl_bytes", None)
    # thorough: the same scenarios through the ASan/UBSan build of the driver (a memory error is
    # exit 99/98 = crash, which the Driver spec never allows)
    runexe = targets.get("h_drv_asan") if tier == "thorough" else exe
    runs = drv.run_cases(runexe, PID, cases, timeout=60 if tier == "thorough" else 30)
    recs = []
    for c, r in zip(cases, runs):
        s = r["sol"]
        o = {"hang": r["hang"], "crash": (not r["hang"]) and (r["rc"] < 0 or r["rc"] in (97, 98, 99, 134, 139)), "exit": r["rc"] if not r["hang"] else -1,
             "sol": "ok" if s else ("malformed" if r["sol_present"] else "absent"),
             "code": s["code"] if s and s["code"] is not None else -1,
             "dimsOK": bool(s) and (s["nvars"], s["ncons"]) == c["dims"] and s["nprimal"] in (0, s["nvars"]) and s["ndual"] in (0, s["ncons"]),
             "msgNonEmpty": bool(s and s["msg"].strip()), "stderrNonEmpty": bool(r["stderr"].strip()), "stdoutNonEmpty": bool(r["stdout"].strip()),
             "altN": len(r.get("alt", [])),
             "altBad": sum(1 for a_ in r.get("alt", []) if not a_["sol"] or (a_["sol"]["nvars"], a_["sol"]["ncons"]) != c["dims"]
                           or a_["sol"]["nprimal"] not in (0, a_["sol"]["nvars"]) or a_["sol"]["ndual"] not in (0, a_["sol"]["ncons"])),
             "altSeq": [a_["name"] for a_ in r.get("alt", [])] == ["alt%d.sol" % (i_ + 1) for i_ in range(len(r.get("alt", [])))],
             "nsol": next((int(sf["vals"].get(0, -1)) for sf in (s["suffixes"] if s else []) if sf["name"] == "nsol" and (sf["kind"] & 3) == 3), -1)}
        recs.append({"e": "Run", "id": c["id"], "s": c["s"], "o": o})
    res = validate_parallel("TraceDriver", "TraceDriver.cfg", recs, sd, "c09", chunks=4)
    verdicts = [v for r in res for v in printed_json(r, "VERDICT")]
    if len(verdicts) != len(recs):
        raise Broken("verdict count mismatch")
    v = Verdict(PID)
    nbad = 0
    for vd in verdicts:
        if vd["ok"]:
            continue
        nbad += 1
        c = cases[vd["id"]]; r = runs[vd["id"]]; s = c["s"]
        for w in sorted(vd["why"]) or ["rejected"]:
            key = "%s:%s:%s:%s:%s:%s" % (w, s["model"], s["opt"], s["mode"], s["names"], s["out"])
            v.violation(key, "scenario %s, driver args %s: %s (exit %s, sol %s code %s, stderr %r, message %r)" %
                        (s, c["args"] + c["opts"], w, r["rc"], recs[vd["id"]]["o"]["sol"], recs[vd["id"]]["o"]["code"], r["stderr"][:150], (r["sol"] or {}).get("msg", "")[:150]),
                        {"scenario": s, "args": c["args"] + c["opts"], "outcome": recs[vd["id"]]["o"], "nl": c.get("nl_bytes", b"").decode("latin-1")[:3000]})
    rcode, nnew = v.finish()
    if rcode == 0 and not any(r_["o"]["altN"] == 3 and r_["o"]["nsol"] == 3 for r_ in recs):
        raise Broken("no run produced the three further solution files (sol:stub scenarios vacuous)")
    write_evidence(PID, tier, {
        "states": mc.distinct + sum(r.distinct for r in res), "transitions": mc.generated + sum(r.generated for r in res),
        "traces_validated_against_impl": len(recs), "samples": [recs[0], recs[len(recs) // 2], recs[-1]],
        "evaluations": len(recs), "scenarios": len(scen), "rejected_runs": nbad, "exhaustive": True,
        "explanation": "TLC enumerates all scenarios (11 model classes x 5 option classes x 3 invocation modes x 4 names-file states x output ok/blocked), model-checks the phase machine (incl. termination under weak fairness) and each scenario is run through the real driver as a child process; exit status, stderr and the strictly parsed .sol are validated by TLC against Driver.tla",
        "violations_new": nnew,
    }, time.time() - t0, violations=nnew,
        assumptions=["the .sol file is parsed by the strict parser in tools/nlgen.py", "an unwritable result path is simulated by a directory named <stub>.sol"])
    return rcode

if __name__ == "__main__":
    main_wrapper(PID, run)
